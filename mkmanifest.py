#!/usr/bin/env python3
# Writes MANIFEST.json from the table below (edit here, run, commit).
import json
TECH = "contract-based deductive verification: contracts as //@ comments on the real functions, VCs generated from go/ssa of the current working tree, every obligation discharged by z3 4.8 / z3 5.1 / cvc5 (raced)"
claimed = {
 "C01": ('Proved for all inputs, precisions, modes, signs and aliasings: round() returns RoundSpec (the arithmetic definition of rounding, written from the property statement) of its input mantissa and leaves a canonical value (19-way case split, no assumed clause); Add/Sub return RoundSpec of the exact sum/difference, Mul of the exact product (via the assumed dec.mul/sqr value contract), Quo of the Euclidean quotient with sticky remainder and enough digits (ghost witnesses, DESIGN.md 10.3); Set/SetPrec/Neg/Abs likewise; under/overflow to +-0/+-Inf; index/nil/frame safety of the whole cone.',
         'assumed: dec.mul, dec.sqr, dec.divLarge value contracts (validated by bounded execution vs math/big, evidence.coverage.bounded); one paper step for Quo (DESIGN.md 10.3); operand size bounds (len <= 10^7 words, exponent gap <= 10^9)'),
 "C02": ('Proved: acc component of RoundSpec for Set/SetPrec/setExpAndRound and every arithmetic value clause (Add, Sub, Mul, Quo, FMA), under/overflow accuracy, Exact on cancellation and special values, and for the integer setters SetInt64/SetUint64/NewDecimal/SetInt (value clauses: roundspec includes the accuracy), SetMantExp range clauses, GobDecode into a non-zero-precision receiver.',
         'same assumed clauses as C01; SetRat, string setters not covered'),
 "C03": ("Proved for every aliasing of z with x, y, u: the exact product (ghost gMp*10^gqp, tied to Mx*My by ensures[prod]) plus u is rounded once (fmaspec = RoundSpec of the exact sum/difference), the u == 0 shortcut equals Mul, special-value table, zero-sum sign rule, ErrNaN iff invalid, operands unchanged, validity. Domain: requires[prodrange] (product exponent inside the int32 range); outside it FMA is wrong - an open known finding kept visible by a bounded run.", "requires[prodrange], requires[range] size bounds; Add/umul contracts"),
 "C04": ('Proved: IEEE special-value tables of Add/Sub/Mul/Quo/FMA/Sqrt/Set/Neg/Abs/SetInf, `panics ErrNaN iff invalid operation`, receiver valid on the exceptional exit, and unreachability of every other panic site (index, slice, nil, division, explicit panic) in the functions under contract (kernels incl. the verified assembly, dec layer, Decimal arithmetic, setters, Gob, conversions to integers).',
         'functions not under contract (formatting, parsing, Float conversions, Karatsuba/division internals, sqrtInverse) are not covered by the no-other-panic half'),
 "C05": ("Proved: Sqrt(+-0) = +-0, Sqrt(+Inf) = +Inf, ErrNaN exactly for negative operands (incl. -Inf), precision rule, the receiver's rounding mode is preserved, the operand is not modified, the result is canonical - given the assumed frame/shape contract of sqrtInverse. The claim that the root is correctly rounded is a Newton-iteration error analysis that no contract within reach expresses: it is checked by BOUNDED execution against an exact integer oracle (evidence.coverage.bounded) and is in fact false - recorded as a known finding (off by one unit in the last place, also for perfect squares under directed modes).",
         'sqrtInverse assumed; rounding clause bounded only (known finding one-ulp)'),
 "C06": ('Proved: functional correctness of the word kernels (Go and assembly), mulAddWW, divW, add, sub, shl, shr; dec.div itself (dispatch on dividend < divisor, one-word divisor through divW, otherwise divLarge) with quotient*divisor + remainder == dividend, remainder < divisor, normalised results and the length bounds; index safety and frames of those; Mul/Quo are the exact product / Euclidean quotient rounded once GIVEN the value contracts of dec.mul, dec.sqr and divLarge. Those three contracts (Karatsuba multiplication and squaring with their composition loops, Knuth D, recursive division) are not within reach of the VC generator: they are assumed by callers and validated by BOUNDED execution against math/big for operand lengths up to 260 words and six threshold tunings (evidence.coverage.bounded).',
         'dec.mul, dec.sqr, dec.divLarge assumed (value clauses)'),
 "C07": ("Proved: every portable Go kernel (_g) satisfies its value contract (the mathematical definition) for all inputs and lengths, including the in-place/overlap layouts the library uses. Proved as well, by the assembly front end (symbolic execution of the Plan 9 amd64 text with label invariants, same contract text as the _g twin): all twelve routines of dec_arith_amd64.s - mul10WW, div10W, div10WW, div10VWW, mulAdd10VWW, addMul10VVW, add10VV, sub10VV, add10VW, sub10VW, shl10VU, shr10VU - including the shared tail routines decCpy/decCpyInv and the magic-number division tables (per shift count), and divWVW of arith_amd64.s with its Go twin (long division in base 2^64). Two implementations that satisfy the same contract agree word for word (the contract fixes every output word and the carry), so the default build and the pure-Go builds compute the same results. In addition a BOUNDED differential execution compares all assembly routines, the unused math/big kernels and the pure-Go build tags with the portable code (lengths 0..9, edge-word combinations, all shifts, overlapping layouts, canaries; evidence.coverage.bounded).",
         "trusted for the verified routines: the semantics of the modelled instruction subset as written in engine/asm.go, ABI0 argument layout, gc/amd64 struct layout of the magic table, flags after MULQ/DIVQ unspecified; math/big kernels other than divWVW are not called by the package and only compared"),
 "C08": ('Proved: valid(z) (canonical form: words below the base, normalized, mantissa fits the precision, trailing digits clear, zero/Inf have no mantissa) is a postcondition of every mutator under contract - round, setExpAndRound, Add, Sub, Mul, Quo, FMA, Sqrt, Set, SetPrec, Neg, Abs, SetInf, SetMantExp, SetBitsExp, SetInt64, SetUint64, NewDecimal, SetInt, GobDecode - on normal and ErrNaN exits, given valid operands.',
         'sqrtInverse assumed (shape of its result); SetInt over assumed setNat/math/big accessors; SetRat, SetFloat*, parsers not under contract'),
 "C09": ("Proved: precision rule (a receiver with precision 0 takes the operands' maximum, otherwise keeps its own), mode unchanged, operands unchanged (all fields and mantissa words) for every operation under contract (arithmetic, FMA, Sqrt, setters, SetInt, GobDecode), all aliasings.",
         'operations not under contract: SetRat, SetFloat*, SetString/Parse'),
 "C10": ("Corollary: every result-determining postcondition (C01/C02/C03 clauses) is proved with pointers, slice headers, stale buffer contents and the receiver's previous value unconstrained, so results are functions of operand values, precision and mode only.", "same assumed clauses as C01"),
 "C14": ("Proved: Int64/Uint64 return the integer part gT of |x| (gT = floor(M/10^d) stated without division through the ghost remainder of dec.shr, or M*10^k) with the documented saturation at the type bounds, 0/Above for negatives (Uint64), the special values, and accuracy Exact iff MinPrec <= exp where MinPrec is 19L minus the number of trailing zero digits (word-level characterisation tz); IsInt and MinPrec likewise; toUint64 exact or overflow. SetInt64/SetUint64/NewDecimal/setBits64 store the argument rounded once: roundspec(z, |x|*10^gs, gL, exp + 19*gL - gs) with the normalisation witnesses gL, gs pinned by ensures[norm] (exact when the precision allows, precision 0 becomes DefaultDecimalPrec), sign, zero, saturation when the exponent leaves the range, no wrap of the int64 exponent sum, validity. SetInt stores |x| rounded once as well (same clause over uf_abs(x) = the value of x.Bits() in base 2^64): setNat (radix conversion by repeated divWVW) is verified against V(result) + gR*B^len(z) == V2(x), divWVW against long division in base 2^64. Not machine-checked: the step from `trailing zero digits >= d` to `remainder == 0` (divisibility of M by 10^d); the two assumed clauses of setNat (gR == 0 and the length bound: the destination sized by a float64 estimate is long enough); math/big's BitLen/Sign/Bits as uninterpreted functions of the argument. Int: accuracy (Exact iff nothing discarded, else the sign of the discarded part), nil result for infinities, and that the magnitude handed to math/big is the integer part of |x| (intMant proved; the radix conversion decToNat is assumed to preserve the value). The values produced by Int/Rat/SetRat through decToNat and math/big arithmetic are checked by BOUNDED execution only (big-conversions, evidence.coverage.bounded).",
         'one paper step (tz >= d iff remainder 0); setNat.ensures[complete], [size] assumed; math/big accessors assumed; Int/Rat/SetRat values bounded only'),
 "C16": ("Proved: ucmp (digit-wise comparison with zero padding) returns the order of the exact magnitudes (loop invariants on the compared prefixes, lifted to values with V_eq_shift/V_pos/V_zero and explicit product facts); different exponents decide by normalisation; Cmp is the sign of x-y over {-Inf, finite, 0, +Inf}; ord/Sign/Signbit/IsZero/IsInf consistent. Antisymmetry and transitivity follow from `Cmp == sign(x-y)`; they are not separate obligations.", "operand size bounds only"),
 "C17": ("Proved: GobDecode is total on arbitrary bytes (every index/slice/length obligation), returns an error with the receiver's scalars untouched or leaves valid(z) (canonical form); a receiver with non-zero precision keeps precision and mode and gets the transmitted value rounded (rounded/kept clauses); empty input gives the zero value; GobEncode never panics on a valid Decimal, does not modify it, and writes version, header byte, precision, exponent and the mantissa words big-endian (dec.bytes proved byte by byte; bigEndianWord verified; dec.setBytes reads the same layout back). GobDecode accepts every byte string of the shape GobEncode produces (ensures[accepts] over gobwf). The round trip itself is the contract of the hook verifGobRoundTrip (hooks_verif.go, build tag verif): GobEncode followed by GobDecode into a zero-value Decimal returns no error and reproduces precision, mode, accuracy, form, sign, exponent and every mantissa word - proved from the contracts of the two methods.",
         'SetPrec contract for the rounding into a non-zero-precision receiver; the round trip is stated for mantissas up to 9*10^7 words'),
 "C18": ("Proved sequentially: write frame of every function under contract is the receiver's fields and its own (or fresh) mantissa array; operands unchanged; results never alias an operand buffer. Race freedom then follows from the Go memory model (meta-argument, not machine-checked).", "sync.Pool exclusivity; Go memory model; functions not under contract"),
 "C19": ("Proved: every Context method: latched error => receiver untouched; NaN => recorded, no panic; otherwise result has the context's precision and mode; deferred handler re-panics every non-ErrNaN value; Err returns and clears.", "Decimal-layer contracts of the wrapped operations"),
 "C20": ('Proved: SetBitsExp (sign, zero, exactness, saturation, no int64 wrap), BitsExp, MantExp (incl. the buffer clause), SetMantExp (value preserved, zero/inf exactly when the exponent sum leaves the range).',
         'size bounds only'),
}
na = {
 "C11": "text round trip needs a denotation of byte sequences through strconv/bytes/io interfaces; recursive sequence functions are outside what the solvers decide here (DESIGN.md section 6)",
 "C12": "the parsers go through io.ByteScanner/strings.Reader/strconv/fmt; the byte-reader model was not built so no obligation is generated for them; the exact-value half needs a denotation of digit strings (as C11) and agreement with math/big's grammar has no independent specification (DESIGN.md section 6)",
 "C13": "oracle is the layout behaviour of fmt/strconv; a contract could only restate the implementation (DESIGN.md section 6)",
 "C15": "binary floating point (float64, math/big.Float) is outside the theories the solvers decide here (DESIGN.md section 6)",
}
import subprocess
HOOKS = [l.split()[0] for l in subprocess.run(['git','-C','/repo','log','--format=%h %s'],capture_output=True,text=True).stdout.splitlines() if l.split(' ',1)[1].startswith('verif:')][::-1]
checks = []
for p in sorted(claimed):
    text, note = claimed[p]
    checks.append({
        "property_id": p,
        "quick_cmd": "./check.sh %s quick" % p,
        "thorough_cmd": "./check.sh %s thorough" % p,
        "evidence_file": "/verif/evidence/%s.json" % p,
        "engine": "dvc",
        "technique": TECH,
        "level_claimed": {"category": "proof", "text": text, "design_ref": "DESIGN.md section 5, " + p},
        "level_note": note + "; trusted: the VC generator, intrinsic contracts (math/bits, copy, make), ghost function axioms Vdef/Pdef/p10def, amd64 only, termination unverified",
    })
m = {
 "version": 1,
 "setup_cmd": "cd engine && GOFLAGS=-mod=vendor GOPROXY=off GOSUMDB=off GOTOOLCHAIN=local go build -o ../bin/dvc .",
 "hooks": {
  "guard": "verif",
  "enable": "files with //go:build verif: the comment-only contract files contracts_verif.go, contracts_decimal_verif.go, context/contracts_verif.go, and hooks_verif.go (one function, verifGobRoundTrip, composing GobEncode and GobDecode so that the round trip is a contract); the verifier loads /repo with -tags verif",
  "baseline_off_cmd": "cd /repo && go build ./... && go test -vet=off -count=1 ./...",
  "source_commits": HOOKS,
  "add_only": True,
 },
 "engines": [{"name": "dvc", "path": "/verif/engine", "serves_properties": sorted(claimed),
   "kind_free_text": "self-built deductive verifier for Go: contracts as //@ comments, VC generation over go/ssa (naive form), SMT back ends z3 4.8 / z3 5.1 / cvc5 raced per obligation, models replayed on the real code through go test -overlay"}],
 "checks": checks,
 "not_applicable": [{"property_id": p, "reason": na[p]} for p in sorted(na)],
 "notes": "see DESIGN.md; known findings in known_findings.json; seeded changes in seeded/",
}
import subprocess
hooks = subprocess.run(["git","-C","/repo","log","--format=%H %s"],capture_output=True,text=True).stdout.splitlines()
m["hooks"]["source_commits"] = [l.split()[0] for l in hooks if l.split(" ",1)[1].startswith("verif:")]
json.dump(m, open("MANIFEST.json","w"), indent=1)
print(len(checks), "checks;", len(na), "not applicable")
