#!/bin/sh
# usage: seedconfirm.sh <dir holding patch.diff and demo_test.go.txt>
# Confirms a seeded change in a scratch worktree of /repo: it applies, the package builds, the existing
# suite passes with it, the demonstration fails with it and passes without it.
dir=$1
export GOFLAGS=-mod=mod GOPROXY=off GOSUMDB=off GOTOOLCHAIN=local
wt=/tmp/seedconfirm_$$
git -C /repo worktree add -q --detach $wt HEAD || exit 2
cd $wt
res=""
git apply $dir/patch.diff || { echo "patch does not apply"; cd /; git -C /repo worktree remove --force $wt; exit 1; }
go build ./... >/dev/null 2>&1 && res="$res build=ok" || res="$res build=FAIL"
go test -vet=off -count=1 ./... >/dev/null 2>&1 && res="$res suite_with_change=pass" || res="$res suite_with_change=FAIL"
cp $dir/demo_test.go.txt zz_seed_demo_test.go
go test -vet=off -count=1 -run 'TestSeedDemo$' . >/dev/null 2>&1 && res="$res demo_with_change=PASS(bad)" || res="$res demo_with_change=fails"
git checkout -q -- . 
go test -vet=off -count=1 -run 'TestSeedDemo$' . >/dev/null 2>&1 && res="$res demo_without_change=passes" || res="$res demo_without_change=FAILS(bad)"
cd /; git -C /repo worktree remove --force $wt
echo "$dir:$res"
