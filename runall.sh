#!/bin/sh
# usage: ./runall.sh [tier]  -- every property check in turn, one summary line each
cd "$(dirname "$0")" || exit 2
tier=${1:-quick}
for p in $(python3 -c "import json;print(' '.join(c['property_id'] for c in json.load(open('MANIFEST.json'))['checks']))"); do
  t0=$(date +%s)
  ./check.sh $p $tier > .work/run_$p.log 2>&1; rc=$?
  t1=$(date +%s)
  echo "$p rc=$rc $((t1-t0))s $(tail -1 .work/run_$p.log)"
done
