#!/bin/sh
# usage: ./check.sh <property> <quick|thorough>
# Builds the verifier if needed and runs one property check against /repo's working tree.
cd "$(dirname "$0")" || exit 2
export GOFLAGS=-mod=vendor GOPROXY=off GOSUMDB=off GOTOOLCHAIN=local
if [ ! -x bin/dvc ] || [ -n "$(find engine -name '*.go' -newer bin/dvc -not -path 'engine/vendor/*' 2>/dev/null | head -1)" ]; then
  (cd engine && go build -o ../bin/dvc .) || { echo "cannot build the verifier" >&2; exit 2; }
fi
exec bin/dvc check -p "$1" -tier "${2:-quick}"
