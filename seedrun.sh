#!/bin/sh
# usage: seedrun.sh <seed dir name> [properties...]
# Applies /verif/seeded/<name>/patch.diff to a scratch worktree of /repo (never to /repo itself),
# runs the given property checks (default: the property in the directory name) against it, removes the worktree.
name=$1; shift
props="$*"
[ -z "$props" ] && props=$(echo $name | cut -c1-3)
wt=/tmp/seedwt_$name
git -C /repo worktree remove --force $wt >/dev/null 2>&1
git -C /repo worktree add -q --detach $wt HEAD || exit 2
(cd $wt && git apply /verif/seeded/$name/patch.diff) || { echo "$name: patch does not apply"; git -C /repo worktree remove --force $wt; exit 2; }
out=/tmp/seedout_$name; rm -rf $out; mkdir -p $out; cp /verif/known_findings.json $out/; cp -r /verif/bounded $out/
for p in $props; do
  /verif/bin/dvc check -p $p -tier quick -repo $wt -verif $out > $out/$p.log 2>&1
  echo "$name $p rc=$? $(grep -c '^VIOLATION' $out/$p.log) violations: $(grep -A1 '^VIOLATION' $out/$p.log | grep 'failed obligation' | head -3 | cut -c1-160 | tr '\n' ';')"
done
git -C /repo worktree remove --force $wt
