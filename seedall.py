#!/usr/bin/env python3
"""Runs every seeded change under /verif/seeded against the checks, in scratch worktrees of /repo
(never in /repo itself), and records the outcome:

  seeded/<id>/meta.json   which property it breaks, what it needs in order to manifest, what was run
                          to confirm it, and which checks / obligations report it
  seeded/README.md        the summary table referred to by DESIGN.md section 10.5

usage: seedall.py [id ...]      (default: all)
"""
import json, os, re, subprocess, sys, time

VERIF = "/verif"
ENV = dict(os.environ, GOFLAGS="-mod=mod", GOPROXY="off", GOSUMDB="off", GOTOOLCHAIN="local")

# extra properties whose checks are also run for a seed (besides the one in its name)
ALSO = {"C01": ["C02"], "C01b": ["C02", "C08"], "C02": ["C01"], "C06": ["C01", "C02"], "C08": ["C01"], "C08b": ["C05"],
        "C10": ["C01", "C02"], "C17b": [], "C14b": [], "C03": ["C10"], "C09": ["C18"], "C04": ["C10"],
        "C06b": ["C01", "C02"], "C06c": ["C01"], "C06d": ["C01"], "C06e": ["C01"], "C02b": ["C20"], "C14c": ["C02"],
        "C18": ["C09", "C14"], "C04b": ["C03"], "C16b": ["C01"], "C09c": ["C18", "C14"], "C14e": []}


def sh(cmd, cwd=None, timeout=3600):
    p = subprocess.run(cmd, shell=True, cwd=cwd, env=ENV, capture_output=True, text=True, timeout=timeout)
    return p.returncode, p.stdout + p.stderr


def confirm(sid):
    d = f"{VERIF}/seeded/{sid}"
    wt = f"/tmp/seedconfirm_{sid}"
    sh(f"git -C /repo worktree remove --force {wt}")
    rc, out = sh(f"git -C /repo worktree add -q --detach {wt} HEAD")
    res = {}
    try:
        rc, out = sh(f"git apply {d}/patch.diff", cwd=wt)
        res["patch_applies"] = rc == 0
        if rc != 0:
            return res
        res["build_with_change"] = sh("go build ./...", cwd=wt)[0] == 0
        res["suite_passes_with_change"] = sh("go test -vet=off -count=1 ./...", cwd=wt)[0] == 0
        notes = open(f"{d}/notes.md").read() if os.path.exists(f"{d}/notes.md") else ""
        sub = "context" if ("package context" in open(f"{d}/demo_test.go.txt").read()[:400]) else "."
        sh(f"cp {d}/demo_test.go.txt {wt}/{sub}/zz_seed_demo_test.go")
        res["demo_fails_with_change"] = sh(f"go test -vet=off -count=1 -run 'TestSeedDemo$' ./{sub}", cwd=wt)[0] != 0
        sh("git checkout -q -- .", cwd=wt)
        res["demo_passes_without_change"] = sh(f"go test -vet=off -count=1 -run 'TestSeedDemo$' ./{sub}", cwd=wt)[0] == 0
    finally:
        sh(f"git -C /repo worktree remove --force {wt}")
    return res


def run_checks(sid, props):
    d = f"{VERIF}/seeded/{sid}"
    wt = f"/tmp/seedwt_{sid}"
    sh(f"git -C /repo worktree remove --force {wt}")
    sh(f"git -C /repo worktree add -q --detach {wt} HEAD")
    out_dir = f"/tmp/seedout_{sid}"
    sh(f"rm -rf {out_dir}; mkdir -p {out_dir}; cp {VERIF}/known_findings.json {out_dir}/; cp -r {VERIF}/bounded {out_dir}/")
    results = {}
    try:
        rc, out = sh(f"git apply {d}/patch.diff", cwd=wt)
        if rc != 0:
            return {"error": "patch does not apply"}
        for p in props:
            t0 = time.time()
            rc, out = sh(f"{VERIF}/bin/dvc check -p {p} -tier quick -repo {wt} -verif {out_dir}")
            viol = [l.strip() for l in out.splitlines() if l.startswith("  failed obligation") or l.startswith("  C0") or "MISMATCH" in l]
            viol += [l[l.index("no-failing-input-found ("):].strip() for l in out.splitlines() if l.startswith("VIOLATION") and "no-failing-input-found (" in l]
            nviol = len([l for l in out.splitlines() if l.startswith("VIOLATION")])
            results[p] = {"exit": rc, "violations": nviol, "wall_s": round(time.time() - t0, 1),
                          "reported": [re.sub(r"\s+", " ", v)[:260] for v in viol[:6]]}
    finally:
        sh(f"git -C /repo worktree remove --force {wt}")
        sh(f"rm -rf {out_dir}")
    return results


def needs_of(sid):
    p = f"{VERIF}/seeded/{sid}/notes.md"
    if not os.path.exists(p):
        return ""
    txt = open(p).read()
    m = re.search(r"(?is)(needed to manifest|what is needed|what it needs|needs? to manifest|trigger)[^\n]*\n?(.{0,700})", txt)
    s = (m.group(0) if m else txt[:700])
    return re.sub(r"\s+", " ", s)[:700]


def main():
    args = [a for a in sys.argv[1:] if a != "--readme-only"]
    ids = args or sorted(os.listdir(f"{VERIF}/seeded"))
    if "--readme-only" in sys.argv:
        ids = []
    ids = [i for i in ids if os.path.isdir(f"{VERIF}/seeded/{i}")]
    manifest = json.load(open(f"{VERIF}/MANIFEST.json"))
    claimed = {c["property_id"] for c in manifest["checks"]}
    for sid in ids:
        prop = sid[:3]
        props = [p for p in [prop] + ALSO.get(sid, []) if p in claimed]
        conf = confirm(sid)
        res = run_checks(sid, props) if props else {}
        title = open(f"{VERIF}/seeded/{sid}/notes.md").readline().strip("# \n") if os.path.exists(f"{VERIF}/seeded/{sid}/notes.md") else sid
        meta = {"id": sid, "breaks_property": prop, "title": title, "needs_to_manifest": needs_of(sid),
                "origin": "written by a sub-agent that was given only the property text and a scratch worktree of /repo (nothing from /verif)",
                "confirmed": conf,
                "confirmed_by": "seedall.py/seedconfirm.sh in a scratch git worktree of /repo: git apply patch.diff; go build ./...; go test -vet=off -count=1 ./... (existing suite); demonstration TestSeedDemo with and without the change",
                "checks_run": res,
                "detected": any(isinstance(v, dict) and v.get("exit") == 1 for v in res.values()),
                "at_repo_commit": sh("git -C /repo rev-parse --short HEAD")[1].strip()}
        json.dump(meta, open(f"{VERIF}/seeded/{sid}/meta.json", "w"), indent=1)
        print(sid, "detected" if meta["detected"] else "MISSED", {k: (v.get("exit"), v.get("violations")) for k, v in res.items() if isinstance(v, dict)}, flush=True)
    # README
    rows = []
    for sid in sorted(os.listdir(f"{VERIF}/seeded")):
        mp = f"{VERIF}/seeded/{sid}/meta.json"
        if not os.path.exists(mp):
            continue
        m = json.load(open(mp))
        det = []
        for p, v in m.get("checks_run", {}).items():
            if isinstance(v, dict) and v.get("exit") == 1:
                first = v["reported"][0] if v["reported"] else ""
                first = re.sub(r"^failed obligation ", "", first)
                det.append(f"{p}: {first[:110]}")
        rows.append(f"| {sid} | {m['title'][:90]} | {'yes' if m['detected'] else '**no**'} | {'<br>'.join(det) if det else '-'} |")
    with open(f"{VERIF}/seeded/README.md", "w") as f:
        f.write("# Seeded changes\n\nEach directory holds `patch.diff` (apply with `git -C <worktree> apply`), the demonstration test, the sub-agent's notes and `meta.json` (written by `seedall.py`).\n"
                "No change is ever committed to /repo; the checks are run against a scratch worktree.\n\n| id | change | caught | by (first reported obligation) |\n|---|---|---|---|\n")
        f.write("\n".join(rows) + "\n")


if __name__ == "__main__":
    main()
