package main

import (
	"flag"
	"fmt"
	"os"
	"runtime"
	"sort"
	"strings"
	"time"

	"go/types"

	"golang.org/x/tools/go/ssa"
)

func usage() {
	fmt.Fprintln(os.Stderr, "usage: dvc verify [-f f1,f2] [-v] | dvc check -p Cxx [-tier quick|thorough] | dvc list")
	os.Exit(2)
}

func main() {
	if len(os.Args) < 2 {
		usage()
	}
	switch os.Args[1] {
	case "verify":
		cmdVerify(os.Args[2:])
	case "check":
		cmdCheck(os.Args[2:])
	case "list":
		cmdList(os.Args[2:])
	case "selftest":
		cmdSelftest(os.Args[2:])
	case "lemmas":
		cmdLemmas(os.Args[2:])
	default:
		usage()
	}
}

func (e *Engine) structTypeTable() map[string]*types.Struct {
	out := map[string]*types.Struct{}
	for _, sp := range e.spkgs {
		for _, m := range sp.Members {
			if t, ok := m.(*ssa.Type); ok {
				if st, name, ok := structOf(t.Type()); ok {
					out[name] = st
				}
			}
		}
	}
	return out
}

// genFunction produces the obligations of one function under contract.
func (e *Engine) genFunction(key string) (*FnCtx, error) {
	fn := e.funcs[key]
	if fn == nil {
		return nil, fmt.Errorf("no function %s in the packages", key)
	}
	ct := e.cs.Funcs[key]
	if ct == nil {
		return nil, fmt.Errorf("no contract for %s", key)
	}
	fc := e.newFnCtx(fn, ct)
	fc.structTypes = e.structTypeTable()
	if ct.AsmFile != "" {
		err := fc.runAsm(e.repo)
		return fc, err
	}
	err := fc.run()
	if err != nil {
		return fc, err
	}
	hasFor := false
	for _, sp := range ct.Splits {
		if len(sp.For) > 0 {
			hasFor = true
		}
	}
	if hasFor {
		// second pass: the clauses that need the case split
		fc2 := e.newFnCtx(fn, ct)
		fc2.structTypes = fc.structTypes
		fc2.splitPass = true
		if err := fc2.run(); err != nil {
			return fc, err
		}
		fc.obls = append(fc.obls, fc2.obls...)
		fc.npaths += fc2.npaths
		for k := range fc2.usedLemmas {
			fc.usedLemmas[k] = true
		}
	}
	return fc, nil
}

type FuncReport struct {
	Key      string
	Status   string // proved, failed, assumed, bounded, outside
	Err      string
	Obls     []*Obligation
	Paths    int
	Assumed  []string
	Intrins  []string
	Lemmas   []string
	Calls    []string
	NormalExits, PanicExits int
}

func sortedKeys(m map[string]bool) []string {
	var out []string
	for k := range m {
		out = append(out, k)
	}
	sort.Strings(out)
	return out
}

func cmdVerify(args []string) {
	fs := flag.NewFlagSet("verify", flag.ExitOnError)
	fl := fs.String("f", "", "comma separated function keys (default: all with status proved)")
	verbose := fs.Bool("v", false, "verbose")
	tier := fs.String("tier", "quick", "quick|thorough")
	dumpq := fs.String("dumpq", "", "write failing queries to this directory")
	repo := fs.String("repo", "/repo", "repository")
	mut := fs.String("mutate", "", "file::old::new  (apply a source edit through the loader overlay)")
	showModel := fs.Bool("model", false, "print the entry state of the solver model for failing obligations")
	fs.Parse(args)
	t0 := time.Now()
	var overlay map[string][]byte
	if *mut != "" {
		parts := strings.SplitN(*mut, "::", 3)
		if len(parts) != 3 {
			fmt.Fprintln(os.Stderr, "bad -mutate")
			os.Exit(2)
		}
		src, err := os.ReadFile(*repo + "/" + parts[0])
		if err != nil {
			fmt.Fprintln(os.Stderr, err)
			os.Exit(2)
		}
		if strings.Count(string(src), parts[1]) != 1 {
			fmt.Fprintf(os.Stderr, "mutation source text occurs %d times\n", strings.Count(string(src), parts[1]))
			os.Exit(2)
		}
		overlay = map[string][]byte{*repo + "/" + parts[0]: []byte(strings.Replace(string(src), parts[1], parts[2], 1))}
	}
	e, err := loadEngineOverlay(*repo, "verif", overlay)
	if err != nil {
		fmt.Fprintln(os.Stderr, "load:", err)
		os.Exit(2)
	}
	fmt.Fprintf(os.Stderr, "loaded in %.1fs: %d functions, %d contracts\n", time.Since(t0).Seconds(), len(e.funcs), len(e.cs.Funcs))
	var keys []string
	if *fl != "" {
		keys = strings.Split(*fl, ",")
	} else {
		for k, c := range e.cs.Funcs {
			if c.Status == "proved" && !c.Extern && !c.Inline && !strings.HasPrefix(k, "$") && !strings.HasPrefix(k, "iface:") {
				keys = append(keys, k)
			}
		}
		sort.Strings(keys)
	}
	d := newDischarger(*tier)
	defer d.cleanup()
	bad := 0
	for _, k := range keys {
		t1 := time.Now()
		fc, err := e.genFunction(k)
		if err != nil {
			fmt.Printf("%-28s OUTSIDE  %v\n", k, err)
			bad++
			if fc == nil {
				continue
			}
		}
		d.dischargeAll(fc.obls, runtime.NumCPU())
		d.dischargeAll(fc.covers, runtime.NumCPU())
		reach := 0
		for _, c := range fc.covers {
			if c.Result != "unsat" {
				reach++
			} else if *verbose {
				fmt.Printf("   unreachable return %s trace=%v\n", c.Name, c.Trace)
			}
		}
		byName := map[string][]*Obligation{}
		var names []string
		for _, o := range fc.obls {
			if _, ok := byName[o.Name]; !ok {
				names = append(names, o.Name)
			}
			byName[o.Name] = append(byName[o.Name], o)
		}
		nfail := 0
		for _, n := range names {
			ok := true
			for _, o := range byName[n] {
				if o.Result != "unsat" {
					ok = false
				}
			}
			if !ok {
				nfail++
			}
			slow := 0.0
			slowSolver := ""
			for _, o := range byName[n] {
				if o.TimeS > slow {
					slow, slowSolver = o.TimeS, o.Solver
				}
			}
			if ok && slow > 2 && !*verbose {
				fmt.Printf("   slow %-60s %.1fs (%s)\n", n, slow, slowSolver)
			}
			if *verbose || !ok {
				st := "ok  "
				if !ok {
					st = "FAIL"
				}
				fmt.Printf("   %s %-60s %d queries %.1fs %s", st, n, len(byName[n]), slow, slowSolver)
				if !ok {
					if os.Getenv("DVC_ALLPATHS") != "" {
						for _, o := range byName[n] {
							fmt.Printf("\n        [path %d: %s %.1fs %v]", o.PathID, o.Result, o.TimeS, o.Trace)
						}
					}
					for _, o := range byName[n] {
						if o.Result != "unsat" {
							fmt.Printf("\n        path %d: %s (%s) trace=%v  %s", o.PathID, o.Result, o.Solver, o.Trace, o.Text)
							if *showModel {
								if m := e.modelOf(o, d); m != nil {
									var ks []string
									for k := range m {
										ks = append(ks, k)
									}
									sort.Strings(ks)
									for _, k := range ks {
										if !strings.Contains(k, "[") || m[k] != "0" {
											fmt.Printf("\n          %s = %s", k, m[k])
										}
									}
								}
							}
							if *dumpq != "" && o.Query != "" {
								os.MkdirAll(*dumpq, 0o755)
								fn := fmt.Sprintf("%s/%s_%d.smt2", *dumpq, mangle(o.Name), o.PathID)
								os.WriteFile(fn, []byte(o.Query), 0o644)
								fmt.Printf("\n        query: %s", fn)
							}
							break
						}
					}
				}
				fmt.Println()
			}
		}
		st := "PROVED"
		if reach == 0 && fc.panicExits == 0 {
			st = "VACUOUS"
			bad++
		}
		if nfail > 0 {
			st = "FAILED"
			bad++
		}
		fmt.Printf("%-28s %s  %d obligations (%d queries), %d paths (%d/%d returns reachable), %.1fs\n", k, st, len(names), len(fc.obls), fc.npaths, reach, len(fc.covers), time.Since(t1).Seconds())
	}
	if bad > 0 {
		os.Exit(1)
	}
}

func cmdList(args []string) {
	e, err := loadEngine("/repo", "verif")
	if err != nil {
		fmt.Fprintln(os.Stderr, "load:", err)
		os.Exit(2)
	}
	var keys []string
	for k := range e.cs.Funcs {
		keys = append(keys, k)
	}
	sort.Strings(keys)
	for _, k := range keys {
		c := e.cs.Funcs[k]
		fmt.Printf("%-32s %-8s req=%d ens=%d loops=%d\n", k, c.Status, len(c.Requires), len(c.Ensures), len(c.Loops))
	}
}

func cmdSelftest(args []string) { fmt.Println("not yet"); os.Exit(2) }
func cmdLemmas(args []string) {
	fs := flag.NewFlagSet("lemmas", flag.ExitOnError)
	dumpq := fs.String("dumpq", "", "write failing queries to this directory")
	fs.Parse(args)
	e, err := loadEngine("/repo", "verif")
	if err != nil {
		fmt.Fprintln(os.Stderr, "load:", err)
		os.Exit(2)
	}
	obls, err := e.lemmaObligations()
	if err != nil {
		fmt.Fprintln(os.Stderr, err)
		os.Exit(2)
	}
	d := newDischarger("quick")
	defer d.cleanup()
	d.keep = *dumpq != ""
	d.dischargeAll(obls, runtime.NumCPU())
	bad := 0
	for _, o := range obls {
		st := "ok  "
		if o.Result != "unsat" {
			st = "FAIL"
			bad++
		}
		if true {
			if *dumpq != "" && o.Query != "" {
				os.MkdirAll(*dumpq, 0o755)
				os.WriteFile(fmt.Sprintf("%s/%s.smt2", *dumpq, mangle(o.Name)), []byte(o.Query), 0o644)
			}
		}
		fmt.Printf("   %s %-40s %s %s %.2fs\n", st, o.Name, o.Result, o.Solver, o.TimeS)
	}
	if bad > 0 {
		os.Exit(1)
	}
}
