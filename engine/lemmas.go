package main

import (
	"fmt"
	"sort"
)

// Lemma obligations: every lemma that is not marked `axiom` is proved by the solvers,
// by induction where the contract file says so.  Only instances of axioms and of
// lemmas that appear EARLIER in the file may be used (no circularity).

func (e *Engine) lemmaCtx() *FnCtx {
	fc := &FnCtx{eng: e, key: "lemma", heap0: map[string]*Term{}, entry: map[string]Val{},
		usedAssumed: map[string]bool{}, usedIntrinsics: map[string]bool{}, usedLemmas: map[string]bool{},
		calledKeys: map[string]bool{}, usedGlobals: map[string]bool{}}
	fc.pkg = e.spkgs["decimal"].Pkg
	fc.structTypes = e.structTypeTable()
	return fc
}

func (e *Engine) lemmaOrder() []*Lemma {
	var ls []*Lemma
	for _, l := range e.cs.Lemmas {
		ls = append(ls, l)
	}
	sort.Slice(ls, func(i, j int) bool { return ls[i].Line < ls[j].Line })
	return ls
}

func (fc *FnCtx) lemmaEnv(lm *Lemma, vals map[string]*Term) *Env {
	env := &Env{fc: fc, names: map[string]Val{}, heap: map[string]*Term{}, oldNames: map[string]Val{}, oldHeap: map[string]*Term{}}
	for i, p := range lm.Params {
		t := vals[p]
		if lm.PSorts[i] == SArr {
			env.names[p] = Val{K: VOpaque, T: t}
		} else if lm.PSorts[i] == SBool {
			env.names[p] = boolVal(t)
		} else {
			env.names[p] = mathInt(t)
		}
	}
	return env
}

// lemmaInstance evaluates `name(args)` in env and returns requires ==> ensures.
func (fc *FnCtx) lemmaInstance(env *Env, call *Expr, before int) (*Term, error) {
	if call.Kind != "call" {
		return nil, fmt.Errorf("use needs a lemma instance, got %s", call.String())
	}
	lm := fc.eng.cs.Lemmas[call.Name]
	if lm == nil {
		return nil, fmt.Errorf("unknown lemma %s", call.Name)
	}
	if lm.Line >= before && !lm.Axiom {
		return nil, fmt.Errorf("lemma %s is used before it is proved", call.Name)
	}
	if len(call.Args) != len(lm.Params) {
		return nil, fmt.Errorf("arity of %s", call.Name)
	}
	vals := map[string]*Term{}
	for i, p := range lm.Params {
		v := fc.evalLemma(env, call.Args[i])
		vals[p] = v.T
	}
	ienv := fc.lemmaEnv(lm, vals)
	var pre, post []*Term
	for _, r := range lm.Requires {
		pre = append(pre, fc.evalLemmaBool(ienv, r.E))
	}
	for _, c := range lm.Ensures {
		post = append(post, fc.evalLemmaBool(ienv, c.E))
	}
	return mkImp(mkAnd(pre...), mkAnd(post...)), nil
}

func (e *Engine) lemmaObligations() ([]*Obligation, error) {
	var out []*Obligation
	fc := e.lemmaCtx()
	for _, lm := range e.lemmaOrder() {
		if lm.Axiom {
			continue
		}
		mk := func(tag string, vals map[string]*Term, extraHyps []*Term) error {
			env := fc.lemmaEnv(lm, vals)
			var hyps []*Term
			hyps = append(hyps, extraHyps...)
			for _, r := range lm.Requires {
				hyps = append(hyps, fc.evalLemmaBool(env, r.E))
			}
			for _, u := range lm.Uses {
				t, err := fc.lemmaInstance(env, u, lm.Line)
				if err != nil {
					return fmt.Errorf("lemma %s: %v", lm.Name, err)
				}
				hyps = append(hyps, t)
			}
			var goals []*Term
			for _, c := range lm.Ensures {
				goals = append(goals, fc.evalLemmaBool(env, c.E))
			}
			out = append(out, &Obligation{Func: "lemma", Name: "lemma." + lm.Name + tag, Kind: "lemma", Hyps: hyps, Goal: mkAnd(goals...),
				Text: lm.Name, Where: fmt.Sprintf("line %d", lm.Line)})
			return nil
		}
		vals := map[string]*Term{}
		for i, p := range lm.Params {
			vals[p] = mkConst("l_"+p, lm.PSorts[i])
		}
		if lm.Induct == "" {
			if err := mk("", vals, nil); err != nil {
				return nil, err
			}
			continue
		}
		// base
		env := fc.lemmaEnv(lm, vals)
		baseT := fc.evalLemma(env, lm.Base).T
		bvals := map[string]*Term{}
		for k, v := range vals {
			bvals[k] = v
		}
		bvals[lm.Induct] = baseT
		if err := mk(".base", bvals, nil); err != nil {
			return nil, err
		}
		// step: n > base, IH at n-1
		n := vals[lm.Induct]
		pvals := map[string]*Term{}
		for k, v := range vals {
			pvals[k] = v
		}
		pvals[lm.Induct] = mkSub(n, mkI(1))
		penv := fc.lemmaEnv(lm, pvals)
		var pre, post []*Term
		for _, r := range lm.Requires {
			pre = append(pre, fc.evalLemmaBool(penv, r.E))
		}
		for _, c := range lm.Ensures {
			post = append(post, fc.evalLemmaBool(penv, c.E))
		}
		ih := mkImp(mkAnd(pre...), mkAnd(post...))
		if err := mk(".step", vals, []*Term{mkGt(n, baseT), ih}); err != nil {
			return nil, err
		}
	}
	return out, nil
}
