package main

import (
	"fmt"
	"os"
	"strings"

	"golang.org/x/tools/go/packages"
	"golang.org/x/tools/go/ssa"
	"golang.org/x/tools/go/ssa/ssautil"
)

func main() {
	cfg := &packages.Config{Mode: packages.LoadAllSyntax, Dir: "/repo", BuildFlags: []string{"-tags=verif"}}
	pkgs, err := packages.Load(cfg, ".", "./context")
	if err != nil {
		panic(err)
	}
	prog, spkgs := ssautil.AllPackages(pkgs, ssa.NaiveForm|ssa.GlobalDebug)
	prog.Build()
	want := map[string]bool{}
	for _, a := range os.Args[1:] {
		want[a] = true
	}
	for _, sp := range spkgs {
		if sp == nil {
			continue
		}
		for fn := range ssautil.AllFunctions(prog) {
			if fn.Pkg != sp {
				continue
			}
			name := fn.Name()
			if r := fn.Signature.Recv(); r != nil {
				t := r.Type().String()
				t = t[strings.LastIndex(t, ".")+1:]
				name = t + "." + name
			}
			if want[name] {
				fn.WriteTo(os.Stdout)
				for _, af := range fn.AnonFuncs {
					af.WriteTo(os.Stdout)
				}
				fmt.Println()
			}
		}
	}
}
