package main

// Bounded stand-ins.  Where a function is not within reach of the VC generator (the amd64
// assembly bodies), the check additionally EXECUTES a comparison on the real code over a
// stated, bounded family of inputs.  This is testing, is labelled `bounded` in the
// evidence and never counted under `discharged`.  The test source lives under
// /verif/bounded and is injected into the package with `go test -overlay`, so nothing is
// written into the repository.

import (
	"encoding/json"
	"fmt"
	"os"
	"os/exec"
	"path/filepath"
	"regexp"
	"strconv"
	"strings"
	"time"
)

type boundedSpec struct {
	ID      string // short id: the obligation name is "bounded:<ID>" (known findings refer to it)
	Name    string // label in the evidence
	File    string // under <verif>/bounded
	Run     string // -run regexp
	Marker  string // summary line prefix printed by the test
	Bounds  string
	Stands  []string // functions it stands in for
	Tags    string
	Env     map[string][2]string // name -> value per tier (quick, thorough)
	Timeout string
}

var boundedByProp = map[string][]boundedSpec{
	"C07": {
		{ID: "asm-diff", Name: "asm-vs-go differential (default build: assembly kernels)", File: "c07_diff_test.go.txt", Run: "TestVerifBoundedC07$", Marker: "C07DIFF",
			Bounds: "vector lengths 0..9; words from a 20-element edge set (all combinations up to length 2, pseudo-random selections above, plus uniform words); shifts 0..18 (decimal) and 0..63 (binary); z==x, z==y and the overlapping shift layouts; canary words around the destination",
			Stands: []string{"math/big kernels of arith_amd64.s that the package does not call and that are not under contract: addVV, subVV, addVW, subVW, shlVU, shrVU, mulAddVWW, addMulVVW, mulWW, divWW",
				"redundant cross-check (these are proved, assembly and Go twin): add10VV, sub10VV, add10VW, sub10VW, shl10VU, shr10VU, mulAdd10VWW, addMul10VVW, div10VWW, mul10WW, div10W, div10WW, divWVW"},
			Env: map[string][2]string{"VERIF_C07_COUNT": {"300", "6000"}}, Timeout: "600s"},
		{ID: "wrapper-diff", Name: "wrapper check (decimal_pure_go, math_big_pure_go build: kernels are the Go wrappers)", File: "c07_diff_test.go.txt", Run: "TestVerifBoundedC07$", Marker: "C07DIFF",
			Bounds: "same family, smaller count", Stands: []string{"pure-Go wrappers in dec_arith_decl_pure.go / arith_decl_pure.go"},
			Tags: "decimal_pure_go,math_big_pure_go", Env: map[string][2]string{"VERIF_C07_COUNT": {"40", "300"}}, Timeout: "600s"},
	},
}

var c06Spec = boundedSpec{ID: "mul-sqr-div-exec", Name: "executed contracts of dec.mul, dec.sqr, dec.div against math/big", File: "c06_exec_test.go.txt", Run: "TestVerifBoundedC06$", Marker: "C06EXEC",
	Bounds: "operand lengths 1..260 words (30 sizes around every threshold; division with 1..230-word divisors so that divBasic and divRecursive both run), six word patterns (all nines, zeros under a top word, alternating, edge words, mixed, uniform), threshold tunings {default, (2,1,2), (3,2,4), (4,3,7), (8,4,8), (40,20,40)} for sizes <= 130, remainders {0, v-1, small, random}, stale and aliased destinations",
	Stands: []string{"dec.divBasic, dec.divRecursive (assumed value clauses; reached through the verified dec.div and dec.divLarge)", "redundant cross-check of the verified multiplication and squaring stack (dec.mul, dec.sqr, decKaratsuba, decKaratsubaSqr, decBasicMul, decBasicSqr)"},
	Env: map[string][2]string{"VERIF_C06_REPS": {"3", "40"}}, Timeout: "1500s"}

var c05Spec = boundedSpec{ID: "sqrt-rounding", Name: "executed rounding clause of Sqrt against an exact integer oracle", File: "c05_sqrt_test.go.txt", Run: "TestVerifBoundedC05$", Marker: "C05SQRT",
	Bounds: "perfect squares 1..3600 and their neighbours at six exponents, pseudo-random 1..4 word operands with exponents -20..20, 20 precisions from 1 to 100, six rounding modes, the special values",
	Stands: []string{"sqrtInverse (assumed)", "Sqrt: the correctly-rounded clause"},
	Env:    map[string][2]string{"VERIF_C05_COUNT": {"400", "20000"}}, Timeout: "1500s"}

func init() {
	for _, p := range []string{"C06", "C01", "C02"} {
		boundedByProp[p] = append(boundedByProp[p], c06Spec)
	}
	boundedByProp["C05"] = append(boundedByProp["C05"], c05Spec)
	boundedByProp["C14"] = append(boundedByProp["C14"], boundedSpec{ID: "big-conversions", Name: "executed clauses of Int, Rat, SetInt, SetRat against math/big",
		File: "c14_big_test.go.txt", Run: "TestVerifBoundedC14$", Marker: "C14BIG",
		Bounds: "integers of 1..1160 decimal digits at every word boundary (-1, 0, +1, +2, +9, +18 digits), four digit patterns, both signs, with and without a two-digit fraction; SetRat of (10^d+7)/den for seven d and seven denominators at four precisions; size sweep of the float64 length estimates: SetInt then Int at every bit length 1..6000 (thorough 1..40000) with 2^n-1 and 2^(n-1), Int at every digit count 1..1600 (thorough 1..12000) with 10^d-1 and 10^(d-1)",
		Stands: []string{"decToNat.ensures[complete] and the assumed range of its float64 size estimate (the rest of decToNat is proved)", "setNat.ensures[complete], [size] (assumed: destination long enough)", "values of Int, Rat, SetRat through math/big"}, Env: map[string][2]string{"VERIF_C14_REPS": {"4", "40"}}, Timeout: "900s"})
	boundedByProp["C03"] = append(boundedByProp["C03"], boundedSpec{ID: "fma-product-range", Name: "FMA with a product outside the exponent range (class excluded by requires[prodrange])",
		File: "c03_fma_range_test.go.txt", Run: "TestVerifBoundedC03$", Marker: "C03FMA",
		Bounds: "two members of the excluded class (underflowing and overflowing exact product) x three precisions x six modes, against the same operation with the product inside the range",
		Stands: []string{"FMA outside requires[prodrange]"}, Timeout: "300s"})
}

var classRe = regexp.MustCompile(`class=(\S+)`)

var casesRe = regexp.MustCompile(`cases=(\d+) mismatches=(\d+)`)

// runBounded executes the bounded stand-ins of a property against the working tree.
func runBounded(repo, verif, prop, tier string, seed int, rep *CheckReport) {
	specs := boundedByProp[prop]
	for _, sp := range specs {
		t0 := time.Now()
		wd := filepath.Join(verif, ".work", fmt.Sprintf("bounded_%d", os.Getpid()))
		os.MkdirAll(wd, 0o755)
		ov := map[string]map[string]string{"Replace": {filepath.Join(repo, "zz_verif_bounded_test.go"): filepath.Join(verif, "bounded", sp.File)}}
		ob, _ := json.Marshal(ov)
		ovf := filepath.Join(wd, "overlay.json")
		os.WriteFile(ovf, ob, 0o644)
		args := []string{"test", "-overlay", ovf, "-vet=off", "-count=1", "-timeout", sp.Timeout, "-v", "-run", sp.Run}
		if sp.Tags != "" {
			args = append(args, "-tags", sp.Tags)
		}
		args = append(args, ".")
		cmd := exec.Command("go", args...)
		cmd.Dir = repo
		cmd.Env = append(os.Environ(), "GOFLAGS=-mod=mod", "GOPROXY=off", "GOSUMDB=off", "GOTOOLCHAIN=local", fmt.Sprintf("VERIF_SEED=%d", seed))
		ti := 0
		if tier == "thorough" {
			ti = 1
		}
		for k, v := range sp.Env {
			cmd.Env = append(cmd.Env, k+"="+v[ti])
		}
		out, err := cmd.CombinedOutput()
		os.RemoveAll(wd)
		text := string(out)
		cases, mism := 0, -1
		summaryLine := ""
		var mismLines []string
		for _, l := range strings.Split(text, "\n") {
			if strings.HasPrefix(l, sp.Marker+"-MISMATCH") {
				mismLines = append(mismLines, l)
			} else if strings.HasPrefix(l, sp.Marker+" ") {
				if m := casesRe.FindStringSubmatch(l); m != nil {
					cases, _ = strconv.Atoi(m[1])
					mism, _ = strconv.Atoi(m[2])
					summaryLine = l
				}
			}
		}
		// classify the disagreements: a class listed as an open known finding is reported as such
		known := loadKnown(filepath.Join(verif, "known_findings.json"))
		byClass := map[string][]string{}
		var classOrder []string
		for _, l := range mismLines {
			cls := "unclassified"
			if m := classRe.FindStringSubmatch(l); m != nil {
				cls = m[1]
			}
			if _, ok := byClass[cls]; !ok {
				classOrder = append(classOrder, cls)
			}
			byClass[cls] = append(byClass[cls], l)
		}
		obl := "bounded:" + sp.ID
		entry := map[string]interface{}{"id": sp.ID, "name": sp.Name, "stands_in_for": sp.Stands, "bounds": sp.Bounds, "cases": cases, "mismatches": mism,
			"seed": seed, "tags": sp.Tags, "wall_s": time.Since(t0).Seconds(), "label": "bounded (executed comparison, not a proof)", "summary": summaryLine}
		rep.Bounded = append(rep.Bounded, entry)
		unexplained := 0
		for _, cls := range classOrder {
			isKnown := false
			for _, k := range known.Findings {
				if k.Status == "open" && k.Property == prop && k.Obligation == obl && k.Class == cls {
					isKnown = true
					rep.KnownSeen = append(rep.KnownSeen, obl+"["+cls+"]")
					rep.Lines = append(rep.Lines, fmt.Sprintf("KNOWN-FINDING: property=%s %s class=%s %s (e.g. %s)", prop, obl, cls, k.What, strings.TrimSpace(strings.TrimPrefix(byClass[cls][0], sp.Marker+"-MISMATCH"))))
				}
			}
			if !isKnown {
				unexplained += len(byClass[cls])
			}
		}
		ranOK := mism >= 0 && (err == nil || mism > 0)
		if ranOK && unexplained == 0 && (mism == 0 || len(classOrder) > 0) {
			continue
		}
		// a disagreement not covered by a known finding (or the test could not run): violation, failing inputs as replay
		rep.Violations++
		var bad []string
		for _, cls := range classOrder {
			listed := false
			for _, k := range known.Findings {
				if k.Status == "open" && k.Property == prop && k.Obligation == obl && k.Class == cls {
					listed = true
				}
			}
			if !listed {
				bad = append(bad, byClass[cls]...)
			}
		}
		body := map[string]interface{}{"property": prop, "obligation": obl, "what": sp.Name + ": the real code disagrees with the executed contract on the inputs below (or the run did not complete)",
			"mismatches": bad, "command": "cd " + repo + " && go " + strings.Join(args, " "), "output_tail": truncateTail(text, 3000)}
		rp := writeReplay(verif, prop, "bounded_"+sp.ID, body)
		line := fmt.Sprintf("VIOLATION property=%s replay=%s", prop, rp)
		if len(bad) == 0 {
			line += " no-failing-input-found"
		}
		rep.Lines = append(rep.Lines, line)
		if len(bad) > 0 {
			rep.Lines = append(rep.Lines, "  "+bad[0])
		} else {
			rep.Lines = append(rep.Lines, "  bounded run did not complete: "+truncateTail(text, 300))
		}
	}
}

func truncateTail(s string, n int) string {
	if len(s) > n {
		return "..." + s[len(s)-n:]
	}
	return s
}
