package main

import (
	"fmt"
	"go/types"
	"hash/fnv"

	"golang.org/x/tools/go/ssa"
)

// Region of word memory: indices [Lo,Hi) of array Arr.
type Region struct {
	Arr, Lo, Hi *Term
}

// Frame = what a function (or loop) is allowed to write.
type Frame struct {
	Fields   []frameField // object address + field key ("" = all fields)
	Regions  []Region
	AllMem   bool
	NAlloc0  *Term // arrays >= NAlloc0 are fresh (always writable)
	NObj0    *Term
	Declared bool
	What     string
	loop     *loopInfo // set for the frame of a Go loop: left behind when control leaves the loop
}

type frameField struct {
	Addr  *Term
	SName string
	Field string // "" = all
}

type deferred struct {
	fn   *ssa.Function
	free []Val
}

type stopPoint struct {
	b *ssa.BasicBlock
	f func(*State)
}

type State struct {
	cells      map[*Cell]Val
	regs       map[ssa.Value]Val
	allocs     map[*ssa.Alloc]*Cell
	heap       map[string]*Term
	pc         []*Term
	frames     []*Frame
	entered    map[*ssa.BasicBlock]bool
	prev       *ssa.BasicBlock
	defers     []deferred
	trace      []string
	panicVal   *Val // set while running deferred closures on a panicking path
	recovered  bool
	depth      int
	caseLit    *Term
	ghosts     map[string]*Term
	stopAt     []stopPoint
	phiDone    *ssa.BasicBlock
	ghostOther bool // a hypothetical non-ErrNaN panic is in flight (handler check)
}

func (s *State) clone() *State {
	n := &State{
		cells:      make(map[*Cell]Val, len(s.cells)),
		regs:       make(map[ssa.Value]Val, len(s.regs)),
		allocs:     make(map[*ssa.Alloc]*Cell, len(s.allocs)),
		heap:       make(map[string]*Term, len(s.heap)),
		pc:         s.pc[:len(s.pc):len(s.pc)],
		frames:     s.frames[:len(s.frames):len(s.frames)],
		entered:    make(map[*ssa.BasicBlock]bool, len(s.entered)),
		prev:       s.prev,
		defers:     s.defers[:len(s.defers):len(s.defers)],
		trace:      s.trace[:len(s.trace):len(s.trace)],
		panicVal:   s.panicVal,
		recovered:  s.recovered,
		depth:      s.depth,
		ghostOther: s.ghostOther,
		stopAt:     s.stopAt[:len(s.stopAt):len(s.stopAt)],
		phiDone:    s.phiDone,
	}
	if len(s.ghosts) > 0 {
		n.ghosts = make(map[string]*Term, len(s.ghosts))
		for k, v := range s.ghosts {
			n.ghosts[k] = v
		}
	}
	for k, v := range s.cells {
		n.cells[k] = v
	}
	for k, v := range s.regs {
		n.regs[k] = v
	}
	for k, v := range s.allocs {
		n.allocs[k] = v
	}
	for k, v := range s.heap {
		n.heap[k] = v
	}
	for k, v := range s.entered {
		n.entered[k] = v
	}
	return n
}

func (s *State) assume(t *Term) {
	if t == nil || t.isTrue() {
		return
	}
	if t.Op == "and" {
		for _, a := range t.Args {
			s.assume(a)
		}
		return
	}
	s.pc = append(s.pc, t)
}

func (s *State) snapshotHeap() map[string]*Term {
	h := make(map[string]*Term, len(s.heap))
	for k, v := range s.heap {
		h[k] = v
	}
	return h
}

// ---------- heap keys ----------

func heapSort(key string, ft types.Type) Sort {
	if isBoolType(ft) {
		return SArrB
	}
	return SArr
}

func mangle(s string) string {
	b := []byte(s)
	for i, c := range b {
		if !(c >= 'a' && c <= 'z' || c >= 'A' && c <= 'Z' || c >= '0' && c <= '9' || c == '_') {
			b[i] = '_'
		}
	}
	return string(b)
}

// heapGet returns the current term for a heap map, creating its initial symbol on first use.
func (fc *FnCtx) heapGet(h map[string]*Term, key string, srt Sort) *Term {
	if t, ok := h[key]; ok {
		return t
	}
	t := mkConst("H_"+mangle(key), srt)
	// initial symbols are shared between the old heap and the current one
	fc.heap0[key] = t
	h[key] = t
	return t
}

func (fc *FnCtx) heapCur(s *State, key string, srt Sort) *Term {
	if t, ok := s.heap[key]; ok {
		return t
	}
	if t, ok := fc.heap0[key]; ok {
		s.heap[key] = t
		return t
	}
	t := mkConst("H_"+mangle(key), srt)
	fc.heap0[key] = t
	s.heap[key] = t
	return t
}

// heapIn reads key from an explicit heap snapshot (falls back to the initial symbol).
func (fc *FnCtx) heapIn(h map[string]*Term, key string, srt Sort) *Term {
	if t, ok := h[key]; ok {
		return t
	}
	if t, ok := fc.heap0[key]; ok {
		return t
	}
	t := mkConst("H_"+mangle(key), srt)
	fc.heap0[key] = t
	return t
}

func (fc *FnCtx) fresh(base string, srt Sort) *Term {
	fc.nfresh++
	return mkConst(fmt.Sprintf("%s_%d", mangle(base), fc.nfresh), srt)
}

// typeAssume returns the facts Go's type system guarantees for a value.
func (fc *FnCtx) typeAssume(v Val, nalloc, nobj *Term) *Term {
	switch v.K {
	case VInt:
		if it, ok := intTypeOf(v.Typ); ok {
			return rangeOf(it, v.T)
		}
	case VPtr:
		c := mkLe(mkI(0), v.T)
		if nobj != nil {
			c = mkAnd(c, mkLt(v.T, nobj))
		}
		return c
	case VOpaque:
		return mkLe(mkI(0), v.T)
	case VSlice:
		c := mkAnd(mkLe(mkI(0), v.Arr), mkLe(mkI(0), v.Off), mkLe(mkI(0), v.Len), mkLe(v.Len, v.Cap),
			mkLe(v.Cap, mkInt(pow2(48))), mkLe(v.Off, mkInt(pow2(48))))
		if nalloc != nil {
			c = mkAnd(c, mkLt(v.Arr, nalloc))
		}
		if et := fc.eltyTerm(v); et != nil {
			c = mkAnd(c, et)
		}
		return c
	case VStruct, VTuple:
		var cs []*Term
		for _, e := range v.Elems {
			cs = append(cs, fc.typeAssume(e, nalloc, nobj))
		}
		return mkAnd(cs...)
	}
	return tTrue
}

// freshVal makes an unconstrained symbolic value of a Go type.
func (fc *FnCtx) freshVal(name string, t types.Type) Val {
	switch u := t.Underlying().(type) {
	case *types.Basic:
		if isBoolType(t) {
			return boolVal(fc.fresh(name, SBool))
		}
		if _, ok := intTypeOf(t); ok {
			return intVal(fc.fresh(name, SInt), t)
		}
		return opaqueVal(fc.fresh(name, SInt), t)
	case *types.Pointer:
		return ptrVal(fc.fresh(name, SInt), t)
	case *types.Slice:
		return sliceVal(fc.fresh(name+"_arr", SInt), fc.fresh(name+"_off", SInt), fc.fresh(name+"_len", SInt), fc.fresh(name+"_cap", SInt), t)
	case *types.Struct:
		v := Val{K: VStruct, Typ: t}
		for i := 0; i < u.NumFields(); i++ {
			v.Elems = append(v.Elems, fc.freshVal(name+"_"+u.Field(i).Name(), u.Field(i).Type()))
		}
		return v
	case *types.Tuple:
		v := Val{K: VTuple, Typ: t}
		for i := 0; i < u.Len(); i++ {
			v.Elems = append(v.Elems, fc.freshVal(fmt.Sprintf("%s_%d", name, i), u.At(i).Type()))
		}
		return v
	case *types.Interface, *types.Signature, *types.Map, *types.Chan:
		return opaqueVal(fc.fresh(name, SInt), t)
	case *types.Array:
		return opaqueVal(fc.fresh(name, SInt), t)
	}
	return opaqueVal(fc.fresh(name, SInt), t)
}

func (fc *FnCtx) zeroVal(t types.Type) Val {
	switch u := t.Underlying().(type) {
	case *types.Basic:
		if isBoolType(t) {
			return boolVal(tFalse)
		}
		if _, ok := intTypeOf(t); ok {
			return intVal(mkI(0), t)
		}
		if isStringType(t) {
			return opaqueVal(mkI(0), t)
		}
		return opaqueVal(fc.fresh("zero", SInt), t) // float zero: opaque
	case *types.Pointer:
		return ptrVal(mkI(0), t)
	case *types.Slice:
		return nilSlice(t)
	case *types.Struct:
		v := Val{K: VStruct, Typ: t}
		for i := 0; i < u.NumFields(); i++ {
			v.Elems = append(v.Elems, fc.zeroVal(u.Field(i).Type()))
		}
		return v
	}
	return opaqueVal(mkI(0), t)
}

// ---------- struct objects on the heap ----------

func fieldKey(sname, fname string) string { return sname + "." + fname }

// loadField reads obj.field from heap h.
func (fc *FnCtx) loadFieldIn(h map[string]*Term, sname string, f *types.Var, addr *Term) Val {
	ft := f.Type()
	key := fieldKey(sname, f.Name())
	switch u := ft.Underlying().(type) {
	case *types.Slice:
		return sliceVal(
			mkSelect(fc.heapIn(h, key+".arr", SArr), addr),
			mkSelect(fc.heapIn(h, key+".off", SArr), addr),
			mkSelect(fc.heapIn(h, key+".len", SArr), addr),
			mkSelect(fc.heapIn(h, key+".cap", SArr), addr), ft)
	case *types.Struct:
		v := Val{K: VStruct, Typ: ft}
		for i := 0; i < u.NumFields(); i++ {
			sub := types.NewVar(0, nil, f.Name()+"_"+u.Field(i).Name(), u.Field(i).Type())
			v.Elems = append(v.Elems, fc.loadFieldIn(h, sname, sub, addr))
		}
		return v
	}
	if isBoolType(ft) {
		return boolVal(mkSelect(fc.heapIn(h, key, SArrB), addr))
	}
	t := mkSelect(fc.heapIn(h, key, SArr), addr)
	if _, ok := intTypeOf(ft); ok {
		return intVal(t, ft)
	}
	if _, ok := ft.Underlying().(*types.Pointer); ok {
		return ptrVal(t, ft)
	}
	return opaqueVal(t, ft)
}

func (fc *FnCtx) storeField(s *State, sname string, f *types.Var, addr *Term, v Val) {
	ft := f.Type()
	key := fieldKey(sname, f.Name())
	switch u := ft.Underlying().(type) {
	case *types.Slice:
		if v.K != VSlice {
			panic(unsupported("store of non-slice into slice field " + key))
		}
		s.heap[key+".arr"] = mkStore(fc.heapCur(s, key+".arr", SArr), addr, v.Arr)
		s.heap[key+".off"] = mkStore(fc.heapCur(s, key+".off", SArr), addr, v.Off)
		s.heap[key+".len"] = mkStore(fc.heapCur(s, key+".len", SArr), addr, v.Len)
		s.heap[key+".cap"] = mkStore(fc.heapCur(s, key+".cap", SArr), addr, v.Cap)
		return
	case *types.Struct:
		for i := 0; i < u.NumFields(); i++ {
			sub := types.NewVar(0, nil, f.Name()+"_"+u.Field(i).Name(), u.Field(i).Type())
			fc.storeField(s, sname, sub, addr, v.Elems[i])
		}
		return
	}
	if isBoolType(ft) {
		s.heap[key] = mkStore(fc.heapCur(s, key, SArrB), addr, v.T)
		return
	}
	if v.T == nil {
		panic(unsupported("store of structured value into scalar field " + key))
	}
	s.heap[key] = mkStore(fc.heapCur(s, key, SArr), addr, v.T)
}

// heapKeysOfField lists the heap map names (with sorts) that hold a field.
func heapKeysOfField(sname string, f *types.Var) map[string]Sort {
	out := map[string]Sort{}
	key := fieldKey(sname, f.Name())
	switch u := f.Type().Underlying().(type) {
	case *types.Slice:
		for _, p := range []string{".arr", ".off", ".len", ".cap"} {
			out[key+p] = SArr
		}
	case *types.Struct:
		for i := 0; i < u.NumFields(); i++ {
			sub := types.NewVar(0, nil, f.Name()+"_"+u.Field(i).Name(), u.Field(i).Type())
			for k, v := range heapKeysOfField(sname, sub) {
				out[k] = v
			}
		}
	default:
		if isBoolType(f.Type()) {
			out[key] = SArrB
		} else {
			out[key] = SArr
		}
	}
	return out
}

type unsupported string

func (u unsupported) Error() string { return string(u) }

// eltyTerm states Go's type safety for slices: an array with room for at least one element holds
// elements of one named type only, so slices of different element types ([]Word, []big.Word,
// []byte) never share a backing array (the package does not use unsafe).  elty is uninterpreted.
func (fc *FnCtx) eltyTerm(v Val) *Term {
	if v.K != VSlice || v.Typ == nil || !fc.eltyNeeded() {
		return nil
	}
	sl, ok := v.Typ.Underlying().(*types.Slice)
	if !ok {
		return nil
	}
	h := fnv.New32a()
	h.Write([]byte(types.TypeString(sl.Elem(), nil)))
	id := int64(h.Sum32()%1000000) + 1
	return mkImp(mkLt(mkI(0), v.Cap), mkEq(app("elty", SInt, v.Arr), mkI(id)))
}

// eltyNeeded: the element-type facts are only emitted in functions that handle slices of at least two
// different element types (parameters, results, or any value in the body); everywhere else they could not
// be used and would only perturb the solvers.
func (fc *FnCtx) eltyNeeded() bool {
	if fc.eltyOn != 0 {
		return fc.eltyOn > 0
	}
	seen := map[string]bool{}
	note := func(t types.Type) {
		if t == nil {
			return
		}
		if p, ok := t.Underlying().(*types.Pointer); ok {
			t = p.Elem()
		}
		if sl, ok := t.Underlying().(*types.Slice); ok {
			seen[types.TypeString(sl.Elem(), nil)] = true
		}
	}
	if fc.fn != nil {
		sig := fc.fn.Signature
		for i := 0; i < sig.Params().Len(); i++ {
			note(sig.Params().At(i).Type())
		}
		for i := 0; i < sig.Results().Len(); i++ {
			note(sig.Results().At(i).Type())
		}
		if sig.Recv() != nil {
			note(sig.Recv().Type())
		}
		for _, b := range fc.fn.Blocks {
			for _, in := range b.Instrs {
				if v, ok := in.(ssa.Value); ok {
					note(v.Type())
				}
			}
		}
	}
	fc.eltyOn = -1
	if len(seen) >= 2 {
		fc.eltyOn = 1
	}
	return fc.eltyOn > 0
}
