package main

// Forward symbolic execution of one function's naive-form SSA, producing
// obligations.  Paths fork at branches and are cut at loop heads.

import (
	"fmt"
	"os"
	"strconv"
	"go/ast"
	"go/token"
	"go/types"
	"sort"
	"strings"

	"golang.org/x/tools/go/ssa"
)

type Obligation struct {
	Func   string
	Name   string
	Kind   string
	Props  []string
	Text   string
	Where  string
	Hyps   []*Term
	Goal   *Term
	Trace  []string
	PathID int
	Entry  *EntryInfo
	// results
	Result string // unsat, sat, unknown, timeout, error
	Solver string
	TimeS  float64
	Model  map[string]string
	Query  string
	frames *frameReg
}

// EntryInfo names the entry-state symbols of the function, for replay.
type EntryInfo struct {
	Params []EntryParam
}
type EntryParam struct {
	Name string
	Val  Val
}

type loopInfo struct {
	head    *ssa.BasicBlock
	ordinal int
	blocks  map[*ssa.BasicBlock]bool
	spec    *LoopSpec
	pos     token.Pos
}

type FnCtx struct {
	eng     *Engine
	fn      *ssa.Function
	ct      *Contract
	key     string
	pkg     *types.Package
	loops   map[*ssa.BasicBlock]*loopInfo
	obls    []*Obligation
	nfresh  int
	npaths  int
	heap0   map[string]*Term
	oldHeap map[string]*Term
	entry   map[string]Val // parameter entry values
	entryOrder []string
	nalloc0, nobj0 *Term
	ordinals map[ssa.Instruction]int
	callOrd  map[ssa.Instruction]string
	errs    []string
	cellsByName map[string][]*Cell
	allCells map[*ssa.Alloc]*Cell
	schemaHyps []*Term
	covers  []*Obligation
	lastPos token.Pos
	maxPaths int
	usedAssumed map[string]bool
	eltyOn      int // 0 = not computed, 1 = element-type facts emitted, -1 = not needed
	usedIntrinsics map[string]bool
	panicExits int
	normalExits int
	otherPanicExits int
	numbered map[*ssa.Function]bool
	calledKeys map[string]bool
	structTypes map[string]*types.Struct
	usedGlobals map[string]bool
	usedLemmas map[string]bool
	inlineLoops map[*ssa.BasicBlock]*loopInfo
	concrete bool
	noMerge bool
	pdoms map[*ssa.Function]map[*ssa.BasicBlock]*ssa.BasicBlock
	splitPass bool
	assumedClauses map[string]bool
	entryInfo *EntryInfo
	frames *frameReg
}

type retK func(s *State, rets []Val)

func (e *Engine) newFnCtx(fn *ssa.Function, ct *Contract) *FnCtx {
	fc := &FnCtx{eng: e, fn: fn, ct: ct, key: funcKey(fn), pkg: fn.Pkg.Pkg,
		loops: map[*ssa.BasicBlock]*loopInfo{}, heap0: map[string]*Term{}, entry: map[string]Val{},
		ordinals: map[ssa.Instruction]int{}, callOrd: map[ssa.Instruction]string{},
		cellsByName: map[string][]*Cell{}, allCells: map[*ssa.Alloc]*Cell{}, maxPaths: 6000,
		usedAssumed: map[string]bool{}, usedIntrinsics: map[string]bool{}, numbered: map[*ssa.Function]bool{},
		calledKeys: map[string]bool{}, usedGlobals: map[string]bool{}, usedLemmas: map[string]bool{}, pdoms: map[*ssa.Function]map[*ssa.BasicBlock]*ssa.BasicBlock{}, assumedClauses: map[string]bool{}, inlineLoops: map[*ssa.BasicBlock]*loopInfo{}, frames: newFrameReg()}
	return fc
}

func (fc *FnCtx) errorf(format string, a ...interface{}) {
	fc.errs = append(fc.errs, fmt.Sprintf(format, a...))
}

// ---------- loop discovery ----------

func (fc *FnCtx) findLoops(fn *ssa.Function, ct *Contract) error {
	var heads []*ssa.BasicBlock
	seen := map[*ssa.BasicBlock]bool{}
	for _, b := range fn.Blocks {
		for _, s := range b.Succs {
			if s.Dominates(b) && !seen[s] {
				seen[s] = true
				heads = append(heads, s)
			}
		}
	}
	sort.Slice(heads, func(i, j int) bool { return headOrder(heads[i]) < headOrder(heads[j]) })
	// source loops in order
	var srcLoops []ast.Node
	if syn := fn.Syntax(); syn != nil {
		var body *ast.BlockStmt
		switch d := syn.(type) {
		case *ast.FuncDecl:
			body = d.Body
		case *ast.FuncLit:
			body = d.Body
		}
		if body != nil {
			ast.Inspect(body, func(n ast.Node) bool {
				switch n.(type) {
				case *ast.FuncLit:
					return false
				case *ast.ForStmt, *ast.RangeStmt:
					srcLoops = append(srcLoops, n)
				}
				return true
			})
		}
	}
	if len(srcLoops) != len(heads) {
		return fmt.Errorf("%s: %d source loops but %d CFG loops", funcKey(fn), len(srcLoops), len(heads))
	}
	for i, h := range heads {
		li := &loopInfo{head: h, ordinal: i + 1, blocks: map[*ssa.BasicBlock]bool{h: true}, pos: srcLoops[i].Pos()}
		// natural loop: union over back edges
		var stack []*ssa.BasicBlock
		for _, p := range h.Preds {
			if h.Dominates(p) {
				if !li.blocks[p] {
					li.blocks[p] = true
					stack = append(stack, p)
				}
			}
		}
		for len(stack) > 0 {
			b := stack[len(stack)-1]
			stack = stack[:len(stack)-1]
			for _, p := range b.Preds {
				if !li.blocks[p] {
					li.blocks[p] = true
					stack = append(stack, p)
				}
			}
		}
		if ct != nil {
			li.spec = ct.Loops[li.ordinal]
		}
		fc.loops[h] = li
	}
	if ct != nil {
		for n := range ct.Loops {
			if n < 1 || n > len(heads) {
				return fmt.Errorf("%s: contract mentions loop %d but the function has %d loops", funcKey(fn), n, len(heads))
			}
		}
	}
	return nil
}

// headOrder orders loop heads by source position of the loop they belong to.
// The SSA builder creates the blocks of an outer/earlier statement first; the
// smallest block index among {head, its body successor} is monotone in source order.
func headOrder(h *ssa.BasicBlock) int {
	m := h.Index
	for _, s := range h.Succs {
		if s.Index < m && h.Dominates(s) {
			m = s.Index
		}
	}
	for _, p := range h.Preds {
		if h.Dominates(p) && p.Index < m {
			// a for.post / body block created before the head
			m = minInt(m, p.Index)
		}
	}
	return m
}

func minInt(a, b int) int {
	if a < b {
		return a
	}
	return b
}

// ---------- ordinals for implicit obligations ----------

func (fc *FnCtx) numberInstrs(fn *ssa.Function, prefix string) {
	counts := map[string]int{}
	callCounts := map[string]int{}
	for _, b := range fn.Blocks {
		for _, in := range b.Instrs {
			kind := ""
			switch x := in.(type) {
			case *ssa.IndexAddr, *ssa.Index:
				kind = "index"
			case *ssa.Slice:
				kind = "slice"
			case *ssa.Panic:
				kind = "panic"
			case *ssa.BinOp:
				if x.Op == token.QUO || x.Op == token.REM {
					kind = "div0"
				}
				if x.Op == token.SHL || x.Op == token.SHR {
					kind = "shift"
				}
			case *ssa.FieldAddr:
				kind = "nil"
			case *ssa.MakeSlice:
				kind = "makeslice"
			case *ssa.TypeAssert:
				kind = "typeassert"
			case *ssa.Store:
				kind = "frame"
			case *ssa.Convert:
				kind = "conv"
			case *ssa.Call:
				name := "?"
				if c := x.Common().StaticCallee(); c != nil {
					name = c.Name()
				} else if b, ok := x.Common().Value.(*ssa.Builtin); ok {
					name = b.Name()
				} else if x.Common().IsInvoke() {
					name = x.Common().Method.Name()
				}
				callCounts[name]++
				fc.callOrd[in] = fmt.Sprintf("%s%s#%d", prefix, name, callCounts[name])
			}
			if kind != "" {
				counts[kind]++
				fc.ordinals[in] = counts[kind]
			}
		}
	}
}

// ---------- obligations ----------

func (fc *FnCtx) oblige(s *State, name, kind string, props []string, text string, goal *Term, where string) {
	if fc.splitPass {
		// second pass: only the clauses the split was declared for (and the cuts/lemma premises that support them)
		keep := kind == "assert" || kind == "lemma-premise"
		if kind == "ensures" {
			for _, sp := range fc.ct.Splits {
				for _, l := range sp.For {
					if strings.HasSuffix(name, ".ensures["+l+"]") {
						keep = true
					}
				}
			}
		}
		if !keep {
			return
		}
	} else if kind == "ensures" {
		for _, sp := range fc.ct.Splits {
			for _, l := range sp.For {
				if strings.HasSuffix(name, ".ensures["+l+"]") {
					return // proved in the split pass
				}
			}
		}
	}
	if goal.isTrue() {
		// still record it: a trivially true obligation is discharged by construction
		fc.obls = append(fc.obls, &Obligation{frames: fc.frames, Func: fc.key, Name: name, Kind: kind, Props: props, Text: text, Where: where,
			Goal: goal, Result: "unsat", Solver: "trivial", PathID: fc.npaths})
		return
	}
	// a conjunctive goal is discharged conjunct by conjunct (the negation of a conjunction is a
	// disjunction the solvers handle much worse); all parts keep the obligation's name
	for _, g := range splitConj(goal, 12) {
		o := &Obligation{frames: fc.frames, Func: fc.key, Name: name, Kind: kind, Props: props, Text: text, Where: where,
			Hyps: s.pc[:len(s.pc):len(s.pc)], Goal: g, Trace: s.trace[:len(s.trace):len(s.trace)], PathID: fc.npaths, Entry: fc.entryInfo}
		fc.obls = append(fc.obls, o)
	}
}

// splitConj returns the conjuncts of g (through implications: A => (B and C) gives A => B,
// A => C), or g itself if there are too many.
func splitConj(g *Term, max int) []*Term {
	var out []*Term
	var rec func(ante []*Term, t *Term)
	rec = func(ante []*Term, t *Term) {
		switch {
		case t.Op == "and":
			for _, a := range t.Args {
				rec(ante, a)
			}
		case t.Op == "=>" && len(t.Args) == 2:
			rec(append(ante[:len(ante):len(ante)], t.Args[0]), t.Args[1])
		default:
			r := t
			for i := len(ante) - 1; i >= 0; i-- {
				r = mkImp(ante[i], r)
			}
			out = append(out, r)
		}
	}
	rec(nil, g)
	if len(out) == 0 || len(out) > max {
		return []*Term{g}
	}
	return out
}

// ---------- running a function ----------

func (fc *FnCtx) run() (err error) {
	defer func() {
		if r := recover(); r != nil {
			if u, ok := r.(unsupported); ok {
				err = fmt.Errorf("%s: outside the modelled subset: %s", fc.key, string(u))
				return
			}
			panic(r)
		}
	}()
	fn := fc.fn
	fc.noMerge = fc.ct.NoMerge
	if len(fn.Blocks) == 0 {
		return fmt.Errorf("%s: no Go body (assembly)", fc.key)
	}
	if err := fc.findLoops(fn, fc.ct); err != nil {
		return err
	}
	fc.numberInstrs(fn, "")
	s := &State{cells: map[*Cell]Val{}, regs: map[ssa.Value]Val{}, allocs: map[*ssa.Alloc]*Cell{}, heap: map[string]*Term{}, entered: map[*ssa.BasicBlock]bool{}}
	fc.nalloc0 = mkConst("nalloc0", SInt)
	fc.nobj0 = mkConst("nobj0", SInt)
	s.heap["nalloc"] = fc.nalloc0
	s.heap["nobj"] = fc.nobj0
	s.assume(mkLe(mkI(1), fc.nalloc0))
	s.assume(mkLe(mkI(1), fc.nobj0))
	ei := &EntryInfo{}
	for _, p := range fn.Params {
		v := fc.paramVal(p.Name(), p.Type())
		s.regs[p] = v
		fc.entry[p.Name()] = v
		fc.entryOrder = append(fc.entryOrder, p.Name())
		ei.Params = append(ei.Params, EntryParam{p.Name(), v})
		s.assume(fc.typeAssume(v, fc.nalloc0, fc.nobj0))
		// Go's type system also constrains the fields of the object a pointer parameter refers to
		if v.K == VPtr {
			if st, sname, ok := structOf(v.Typ); ok {
				var cs []*Term
				for i := 0; i < st.NumFields(); i++ {
					cs = append(cs, fc.typeAssume(fc.loadFieldIn(s.heap, sname, st.Field(i), v.T), fc.nalloc0, fc.nobj0))
				}
				s.assume(mkImp(mkNot(mkEq(v.T, mkI(0))), mkAnd(cs...)))
			}
		}
	}
	for _, fv := range fn.FreeVars {
		_ = fv
		return fmt.Errorf("%s: closures are only supported as deferred handlers", fc.key)
	}
	fc.entryInfo = ei
	fc.globalAssumptions(s)
	fc.oldHeap = s.snapshotHeap()
	// function frame
	fr := &Frame{NAlloc0: fc.nalloc0, NObj0: fc.nobj0, Declared: true, What: fc.key}
	env := fc.entryEnv(s)
	for _, m := range fc.ct.Modifies {
		fc.addFrameEntry(fr, env, m)
	}
	s.frames = []*Frame{fr}
	// preconditions
	for _, r := range fc.ct.Requires {
		v := fc.evalSpecBool(env, r.E)
		s.assume(v)
	}
	fc.oldHeap = s.snapshotHeap()
	states := []*State{s}
	for _, sp := range fc.ct.Splits {
		if (len(sp.For) > 0) != fc.splitPass {
			continue
		}
		if only := os.Getenv("DVC_SPLIT_ONLY"); only != "" && sp.Expr != nil {
			// development aid: restrict an expression split to one value
			if v, err := strconv.Atoi(only); err == nil {
				sp.Lo, sp.Hi = v, v
			}
		}
		pv, ok := fc.entry[sp.Var]
		if ok && sp.Table != "" {
			gi := fc.eng.globals[sp.Table]
			if gi == nil || gi.Kind != "structtable" || pv.K != VStruct {
				return fmt.Errorf("%s: split over table %s needs a struct parameter and a struct table", fc.key, sp.Table)
			}
			st := pv.Typ.Underlying().(*types.Struct)
			nrows := len(gi.Fields[st.Field(0).Name()])
			var param *ssa.Parameter
			for _, p := range fn.Params {
				if p.Name() == sp.Var {
					param = p
				}
			}
			var next []*State
			for _, st0 := range states {
				var rows []*Term
				for r := 0; r < nrows; r++ {
					var eqs []*Term
					lit := Val{K: VStruct, Typ: pv.Typ}
					for i := 0; i < st.NumFields(); i++ {
						v := gi.Fields[st.Field(i).Name()][r]
						eqs = append(eqs, mkEq(pv.Elems[i].T, v))
						lit.Elems = append(lit.Elems, intVal(v, st.Field(i).Type()))
					}
					rows = append(rows, mkAnd(eqs...))
					c := st0.clone()
					c.assume(mkAnd(eqs...))
					c.regs[param] = lit
					c.trace = append(c.trace, fmt.Sprintf("split %s=row%d", sp.Var, r))
					next = append(next, c)
				}
				fc.oblige(st0, fc.key+".split["+sp.Var+"]", "split", nil, sp.Var+" is a row of "+sp.Table, mkOr(rows...), "entry")
			}
			states = next
			continue
		}
		if sp.Expr != nil {
			var next []*State
			for _, st0 := range states {
				ev := fc.evalSpec(fc.entryEnv(st0), sp.Expr)
				fc.oblige(st0, fc.key+".split["+sp.Var+"]", "split", nil, fmt.Sprintf("%s in %d..%d", sp.Var, sp.Lo, sp.Hi),
					mkAnd(mkLe(mkI(int64(sp.Lo)), ev.T), mkLe(ev.T, mkI(int64(sp.Hi)))), "entry")
				for k := sp.Lo; k <= sp.Hi; k++ {
					c := st0.clone()
					c.assume(mkEq(ev.T, mkI(int64(k))))
					c.trace = append(c.trace, fmt.Sprintf("split %s=%d", sp.Var, k))
					next = append(next, c)
				}
			}
			states = next
			continue
		}
		if !ok || pv.K != VInt {
			return fmt.Errorf("%s: split variable %s is not an integer parameter", fc.key, sp.Var)
		}
		var next []*State
		var param *ssa.Parameter
		for _, p := range fn.Params {
			if p.Name() == sp.Var {
				param = p
			}
		}
		for _, st := range states {
			// obligation: the split covers the precondition
			fc.oblige(st, fc.key+".split["+sp.Var+"]", "split", nil, fmt.Sprintf("%s in %d..%d", sp.Var, sp.Lo, sp.Hi),
				mkAnd(mkLe(mkI(int64(sp.Lo)), pv.T), mkLe(pv.T, mkI(int64(sp.Hi)))), "entry")
			for k := sp.Lo; k <= sp.Hi; k++ {
				c := st.clone()
				c.assume(mkEq(pv.T, mkI(int64(k))))
				lit := intVal(mkI(int64(k)), pv.Typ)
				c.regs[param] = lit
				c.trace = append(c.trace, fmt.Sprintf("split %s=%d", sp.Var, k))
				next = append(next, c)
			}
		}
		states = next
	}
	for _, st := range states {
		st2 := st
		if len(fc.ct.Splits) > 0 {
			// entry values of split params become literals for this sub-proof
			for _, sp := range fc.ct.Splits {
				if sp.Expr != nil || sp.Table != "" {
					continue
				}
				for _, p := range fn.Params {
					if p.Name() == sp.Var {
						fc.entry[sp.Var] = st2.regs[p]
					}
				}
			}
		}
		for _, h := range fc.ct.Hints {
			if h.Where == "entry" {
				fc.applyHint(st2, fc.entryEnv(st2), h, "entry")
			}
		}
		fc.execBlock(st2, fn, fn.Blocks[0], 0, func(rs *State, rets []Val) { fc.atReturn(rs, rets) })
	}
	return nil
}

func (fc *FnCtx) paramVal(name string, t types.Type) Val {
	n := "v_" + mangle(name)
	switch u := t.Underlying().(type) {
	case *types.Pointer:
		return ptrVal(mkConst(n, SInt), t)
	case *types.Slice:
		return sliceVal(mkConst(n+"_arr", SInt), mkConst(n+"_off", SInt), mkConst(n+"_len", SInt), mkConst(n+"_cap", SInt), t)
	case *types.Basic:
		if isBoolType(t) {
			return boolVal(mkConst(n, SBool))
		}
		if _, ok := intTypeOf(t); ok {
			return intVal(mkConst(n, SInt), t)
		}
		return opaqueVal(mkConst(n, SInt), t)
	case *types.Struct:
		v := Val{K: VStruct, Typ: t}
		for i := 0; i < u.NumFields(); i++ {
			v.Elems = append(v.Elems, fc.paramVal(name+"_"+u.Field(i).Name(), u.Field(i).Type()))
		}
		return v
	}
	return opaqueVal(mkConst(n, SInt), t)
}

func (fc *FnCtx) entryEnv(s *State) *Env {
	names := map[string]Val{}
	for k, v := range fc.entry {
		names[k] = v
	}
	return &Env{fc: fc, names: names, heap: s.heap, oldNames: names, oldHeap: fc.oldHeap, pos: fc.fn.Pos(), nalloc0: fc.nalloc0, nobj0: fc.nobj0}
}

// globalAssumptions adds the `global` invariants of the contract file.
func (fc *FnCtx) globalAssumptions(s *State) {
	for _, g := range fc.eng.cs.Funcs {
		_ = g
		break
	}
	if gc := fc.eng.cs.Funcs["$globals"]; gc != nil && fc.pkg.Name() == "decimal" {
		env := &Env{fc: fc, names: map[string]Val{}, heap: s.heap, oldNames: map[string]Val{}, oldHeap: s.heap}
		for _, r := range gc.Requires {
			s.assume(fc.evalSpecBool(env, r.E))
		}
	}
}

func (fc *FnCtx) atReturn(s *State, rets []Val) {
	fc.npaths++
	fc.normalExits++
	fc.covers = append(fc.covers, &Obligation{frames: fc.frames, Func: fc.key, Name: fmt.Sprintf("%s.cover.return#%d", fc.key, fc.normalExits), Kind: "cover",
		Hyps: s.pc[:len(s.pc):len(s.pc)], Goal: tFalse, Trace: s.trace, PathID: fc.npaths})
	env := fc.entryEnv(s)
	fc.bindResults(env, rets)
	bindGhosts := func() {
		for _, g := range fc.ct.Ghosts {
			if t, ok := s.ghosts[g]; ok {
				env.names[g] = mathInt(t)
			} else {
				env.names[g] = mathInt(fc.fresh("ghost_"+g, SInt))
			}
		}
	}
	bindGhosts()
	defer func() {}()
	for _, h := range fc.ct.Hints {
		if h.Where == "exit" {
			fc.applyHint(s, env, h, "exit")
		}
		if h.Where == "ret" {
			renv := &Env{fc: fc, names: env.names, cellsAt: s, heap: s.heap, oldNames: fc.entry, oldHeap: fc.oldHeap, pos: fc.lastPos,
				nalloc0: fc.nalloc0, nobj0: fc.nobj0}
			fc.applyHint(s, renv, h, "return")
		}
	}
	bindGhosts()
	for _, c := range fc.ct.Ensures {
		if c.Assumed {
			fc.assumedClauses[fmt.Sprintf("%s.ensures[%s]", fc.key, c.Label)] = true
			continue
		}
		g := fc.evalSpecBool(env, c.E)
		fc.oblige(s, fmt.Sprintf("%s.ensures[%s]", fc.key, c.Label), "ensures", c.Props, c.Text, g, "return")
	}
	// the ErrNaN panic condition must be false on normal return (iff half)
	for _, p := range fc.ct.Panics {
		envOld := *env
		envOld.heap = fc.oldHeap
		g := mkNot(fc.evalSpecBool(&envOld, p.E))
		fc.oblige(s, fmt.Sprintf("%s.panics[%s].returns", fc.key, p.Label), "panics", p.Props, "returns normally ==> !("+p.Text+")", g, "return")
	}
}

func (fc *FnCtx) bindResults(env *Env, rets []Val) {
	res := fc.fn.Signature.Results()
	for i := 0; i < res.Len() && i < len(rets); i++ {
		if n := res.At(i).Name(); n != "" && n != "_" {
			env.names[n] = rets[i]
		}
		env.names[fmt.Sprintf("result%d", i)] = rets[i]
		if i == 0 {
			env.names["result"] = rets[0]
		}
	}
}

// atErrNaNPanic is reached when the function panics with an ErrNaN value.
func (fc *FnCtx) atErrNaNPanic(s *State, why string) {
	fc.npaths++
	fc.panicExits++
	env := fc.entryEnv(s)
	envOld := *env
	envOld.heap = fc.oldHeap
	var cs []*Term
	var props []string
	var texts []string
	for _, p := range fc.ct.Panics {
		cs = append(cs, fc.evalSpecBool(&envOld, p.E))
		props = append(props, p.Props...)
		texts = append(texts, p.Text)
	}
	fc.oblige(s, fc.key+".panics.allowed", "panics", props, "ErrNaN panic ("+why+") ==> "+strings.Join(texts, " || "), mkOr(cs...), "panic")
	for _, c := range fc.ct.OnPanic {
		g := fc.evalSpecBool(env, c.E)
		fc.oblige(s, fmt.Sprintf("%s.onpanic[%s]", fc.key, c.Label), "onpanic", c.Props, c.Text, g, "panic")
	}
}

// atBadPanic: a panic that is not an ErrNaN must be unreachable.
func (fc *FnCtx) atBadPanic(s *State, name, what string, props []string) {
	fc.npaths++
	fc.oblige(s, name, "safety", props, "unreachable: "+what, tFalse, what)
}
