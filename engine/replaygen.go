package main

import (
	"encoding/json"
	"fmt"
	"go/types"
	"math/big"
	"os"
	"os/exec"
	"path/filepath"
	"sort"
	"strings"
)

type rpArray struct {
	id    string // model arr id
	name  string
	size  int64
	words map[int64]string
	elem  string // Go element type
}

type rpObject struct {
	addr   string
	name   string
	fields map[string]string
	mant   *rpSlice
}

type rpSlice struct {
	arr           *rpArray
	off, ln, cp   int64
	isNil         bool
}

type rpState struct {
	arrays  map[string]*rpArray
	objects map[string]*rpObject
	order   []string
	fail    string
}

func atoi64(s string) (int64, bool) {
	v, ok := new(big.Int).SetString(s, 10)
	if !ok || !v.IsInt64() {
		return 0, false
	}
	return v.Int64(), true
}

func (st *rpState) slice(m map[string]string, prefix, elem string) *rpSlice {
	arr, ok1 := m[prefix+".arr"]
	off, ok2 := atoi64(m[prefix+".off"])
	ln, ok3 := atoi64(m[prefix+".len"])
	cp, ok4 := atoi64(m[prefix+".cap"])
	if !ok1 || !ok2 || !ok3 || !ok4 {
		st.fail = "model lacks slice header " + prefix
		return nil
	}
	if cp == 0 {
		return &rpSlice{isNil: true}
	}
	if cp > 64 || off > 64 || ln > replayWords {
		st.fail = fmt.Sprintf("slice %s too large to replay exactly (len %d cap %d)", prefix, ln, cp)
		return nil
	}
	a := st.arrays[arr]
	if a == nil {
		a = &rpArray{id: arr, name: fmt.Sprintf("arr%d", len(st.arrays)), words: map[int64]string{}, elem: elem}
		st.arrays[arr] = a
	}
	if off+cp > a.size {
		a.size = off + cp
	}
	for i := int64(0); i < replayWords; i++ {
		if w, ok := m[fmt.Sprintf("%s[%d]", prefix, i)]; ok && i < cp {
			a.words[off+i] = w
		}
	}
	return &rpSlice{arr: a, off: off, ln: ln, cp: cp}
}

func (s *rpSlice) expr(elem string) string {
	if s.isNil {
		return "[]" + elem + "(nil)"
	}
	return fmt.Sprintf("%s[%d:%d:%d]", s.arr.name, s.off, s.off+s.ln, s.off+s.cp)
}

func goIntLit(typ types.Type, v string) string {
	tn := types.TypeString(typ, func(p *types.Package) string { return "" })
	if strings.HasPrefix(v, "-") {
		return fmt.Sprintf("%s(%s)", tn, v)
	}
	if it, ok := intTypeOf(typ); ok && it.bits == 64 && !it.signed {
		return fmt.Sprintf("%s(uint64(%s))", tn, v)
	}
	return fmt.Sprintf("%s(%s)", tn, v)
}

// replayOnCode builds, runs and judges the replay.
func (e *Engine) replayOnCode(verif, prop string, o *Obligation, m map[string]string, r *ReplayResult) {
	fn := e.funcs[o.Func]
	if fn == nil || fn.Pkg.Pkg.Name() != "decimal" {
		r.Body["replay"] = "not attempted (function outside package decimal)"
		return
	}
	st := &rpState{arrays: map[string]*rpArray{}, objects: map[string]*rpObject{}}
	var args []string
	var pre []string
	sig := fn.Signature
	type pinfo struct {
		name string
		typ  types.Type
	}
	var params []pinfo
	for _, p := range fn.Params {
		params = append(params, pinfo{p.Name(), p.Type()})
	}
	for _, p := range params {
		switch u := p.typ.Underlying().(type) {
		case *types.Basic:
			v, ok := m[p.name]
			if !ok {
				r.Body["replay"] = "not attempted (no model value for " + p.name + ")"
				return
			}
			if isBoolType(p.typ) {
				args = append(args, v)
			} else if _, ok := intTypeOf(p.typ); ok {
				args = append(args, goIntLit(p.typ, v))
			} else {
				r.Body["replay"] = "not attempted (parameter type " + p.typ.String() + ")"
				return
			}
		case *types.Slice:
			et := types.TypeString(u.Elem(), func(*types.Package) string { return "" })
			s := st.slice(m, p.name, et)
			if s == nil {
				r.Body["replay"] = "not attempted (" + st.fail + ")"
				return
			}
			tn := types.TypeString(p.typ, func(*types.Package) string { return "" })
			args = append(args, fmt.Sprintf("%s(%s)", tn, s.expr(et)))
		case *types.Pointer:
			_, sname, ok := structOf(p.typ)
			if !ok || sname != "Decimal" {
				r.Body["replay"] = "not attempted (pointer parameter " + p.typ.String() + ")"
				return
			}
			addr := m[p.name]
			if addr == "0" {
				args = append(args, "nil")
				continue
			}
			ob := st.objects[addr]
			if ob == nil {
				ob = &rpObject{addr: addr, name: fmt.Sprintf("d%d", len(st.objects)), fields: map[string]string{}}
				for _, f := range []string{"exp", "prec", "mode", "acc", "form", "neg"} {
					ob.fields[f] = m[p.name+"."+f]
				}
				ob.mant = st.slice(m, p.name+".mant", "Word")
				if ob.mant == nil {
					r.Body["replay"] = "not attempted (" + st.fail + ")"
					return
				}
				st.objects[addr] = ob
				st.order = append(st.order, addr)
			}
			args = append(args, ob.name)
		case *types.Struct:
			r.Body["replay"] = "not attempted (struct parameter)"
			return
		default:
			r.Body["replay"] = "not attempted (parameter type " + p.typ.String() + ")"
			return
		}
	}
	// arrays
	var arrIDs []string
	for id := range st.arrays {
		arrIDs = append(arrIDs, id)
	}
	sort.Slice(arrIDs, func(i, j int) bool { return st.arrays[arrIDs[i]].name < st.arrays[arrIDs[j]].name })
	for _, id := range arrIDs {
		a := st.arrays[id]
		pre = append(pre, fmt.Sprintf("%s := make([]%s, %d)", a.name, a.elem, a.size))
		var idx []int64
		for i := range a.words {
			idx = append(idx, i)
		}
		sort.Slice(idx, func(i, j int) bool { return idx[i] < idx[j] })
		for _, i := range idx {
			if i < a.size {
				pre = append(pre, fmt.Sprintf("%s[%d] = %s(uint64(%s))", a.name, i, a.elem, a.words[i]))
			}
		}
	}
	for _, addr := range st.order {
		ob := st.objects[addr]
		pre = append(pre, fmt.Sprintf("%s := &Decimal{mant: dec(%s), exp: int32(%s), prec: uint32(%s), mode: RoundingMode(%s), acc: Accuracy(%s), form: form(%s), neg: %s}",
			ob.name, ob.mant.expr("Word"), ob.fields["exp"], ob.fields["prec"], ob.fields["mode"], ob.fields["acc"], ob.fields["form"], ob.fields["neg"]))
	}
	// call expression
	call := ""
	if sig.Recv() != nil {
		call = fmt.Sprintf("%s.%s(%s)", args[0], fn.Name(), strings.Join(args[1:], ", "))
	} else {
		call = fmt.Sprintf("%s(%s)", fn.Name(), strings.Join(args, ", "))
	}
	nres := sig.Results().Len()
	var resNames []string
	for i := 0; i < nres; i++ {
		resNames = append(resNames, fmt.Sprintf("r%d", i))
	}
	var b strings.Builder
	b.WriteString("package decimal\n\nimport (\n\t\"fmt\"\n\t\"testing\"\n)\n\n")
	b.WriteString("func TestDVCReplay(t *testing.T) {\n")
	for _, l := range pre {
		b.WriteString("\t" + l + "\n")
	}
	b.WriteString("\tpanicked := \"none\"\n")
	for i := 0; i < nres; i++ {
		rt := types.TypeString(sig.Results().At(i).Type(), func(*types.Package) string { return "" })
		fmt.Fprintf(&b, "\tvar r%d %s\n\t_ = r%d\n", i, rt, i)
	}
	b.WriteString("\tfunc() {\n\t\tdefer func() {\n\t\t\tif e := recover(); e != nil {\n\t\t\t\tif _, ok := e.(ErrNaN); ok {\n\t\t\t\t\tpanicked = \"errnan\"\n\t\t\t\t} else {\n\t\t\t\t\tpanicked = fmt.Sprintf(\"other: %v\", e)\n\t\t\t\t}\n\t\t\t}\n\t\t}()\n")
	if nres > 0 {
		fmt.Fprintf(&b, "\t\t%s = %s\n", strings.Join(resNames, ", "), call)
	} else {
		fmt.Fprintf(&b, "\t\t%s\n", call)
	}
	b.WriteString("\t}()\n")
	b.WriteString("\tfmt.Printf(\"DVC panic=%s\\n\", panicked)\n")
	for _, id := range arrIDs {
		a := st.arrays[id]
		fmt.Fprintf(&b, "\tfmt.Printf(\"DVC array %s %%v\\n\", %s)\n", a.name, a.name)
	}
	// locate helper: which array/offset a slice lives in
	b.WriteString("\tlocate := func(s []Word) string {\n\t\tif cap(s) == 0 {\n\t\t\treturn \"nil 0\"\n\t\t}\n\t\tp := &s[:1][0]\n\t\t_ = p\n")
	for _, id := range arrIDs {
		a := st.arrays[id]
		if a.elem != "Word" {
			continue
		}
		fmt.Fprintf(&b, "\t\tfor i := range %s {\n\t\t\tif &%s[i] == p {\n\t\t\t\treturn fmt.Sprintf(\"%s %%d\", i)\n\t\t\t}\n\t\t}\n", a.name, a.name, a.name)
	}
	b.WriteString("\t\treturn \"fresh 0\"\n\t}\n\t_ = locate\n")
	for _, addr := range st.order {
		ob := st.objects[addr]
		fmt.Fprintf(&b, "\tfmt.Printf(\"DVC object %s exp=%%d prec=%%d mode=%%d acc=%%d form=%%d neg=%%v mant=%%s len=%%d cap=%%d words=%%v\\n\", %s.exp, %s.prec, %s.mode, %s.acc, %s.form, %s.neg, locate(%s.mant), len(%s.mant), cap(%s.mant), []Word(%s.mant))\n",
			ob.name, ob.name, ob.name, ob.name, ob.name, ob.name, ob.name, ob.name, ob.name, ob.name, ob.name)
	}
	for i := 0; i < nres; i++ {
		rt := sig.Results().At(i).Type()
		switch rt.Underlying().(type) {
		case *types.Slice:
			if elemTypeOfSlice(rt).String() == "github.com/db47h/decimal.Word" {
				fmt.Fprintf(&b, "\tfmt.Printf(\"DVC result %d slice %%s len=%%d cap=%%d words=%%v\\n\", locate(r%d), len(r%d), cap(r%d), []Word(r%d))\n", i, i, i, i, i)
			}
		case *types.Pointer:
			fmt.Fprintf(&b, "\tswitch r%d {\n", i)
			for _, addr := range st.order {
				ob := st.objects[addr]
				fmt.Fprintf(&b, "\tcase %s:\n\t\tfmt.Printf(\"DVC result %d ptr %s\\n\")\n", ob.name, i, ob.name)
			}
			fmt.Fprintf(&b, "\tdefault:\n\t\tfmt.Printf(\"DVC result %d ptr other\\n\")\n\t}\n", i)
		default:
			fmt.Fprintf(&b, "\tfmt.Printf(\"DVC result %d val %%v\\n\", r%d)\n", i, i)
		}
	}
	b.WriteString("}\n")
	src := b.String()
	r.Body["replay_test"] = src
	// run it
	wd := filepath.Join(verif, ".work", fmt.Sprintf("replay%d", os.Getpid()))
	os.MkdirAll(wd, 0o755)
	defer os.RemoveAll(wd)
	tf := filepath.Join(wd, "zz_dvc_replay_test.go")
	os.WriteFile(tf, []byte(src), 0o644)
	ov := map[string]map[string]string{"Replace": {filepath.Join(e.repo, "zz_dvc_replay_test.go"): tf}}
	for path, content := range e.overlay {
		of := filepath.Join(wd, "ov_"+filepath.Base(path))
		os.WriteFile(of, content, 0o644)
		ov["Replace"][path] = of
	}
	ovb, _ := json.Marshal(ov)
	ovf := filepath.Join(wd, "overlay.json")
	os.WriteFile(ovf, ovb, 0o644)
	cmd := exec.Command("go", "test", "-overlay", ovf, "-vet=off", "-v", "-count=1", "-timeout", "60s", "-run", "^TestDVCReplay$", ".")
	cmd.Dir = e.repo
	cmd.Env = append(os.Environ(), "GOFLAGS=-mod=mod", "GOPROXY=off", "GOSUMDB=off", "GOTOOLCHAIN=local")
	out, _ := cmd.CombinedOutput()
	r.Body["replay_cmd"] = fmt.Sprintf("cd %s && go test -overlay <overlay with the test above as zz_dvc_replay_test.go> -vet=off -count=1 -timeout 60s -run '^TestDVCReplay$' .", e.repo)
	var lines []string
	for _, l := range strings.Split(string(out), "\n") {
		if strings.HasPrefix(l, "DVC ") {
			lines = append(lines, l)
		}
	}
	r.Body["replay_output"] = lines
	if len(lines) == 0 {
		r.Body["replay"] = "did not run: " + truncate(string(out), 1500)
		return
	}
	e.judgeReplay(o, m, st, lines, r)
}
