package main

import (
	"encoding/json"
	"flag"
	"fmt"
	"os"
	"path/filepath"
	"runtime"
	"sort"
	"strconv"
	"strings"
	"sync"
	"sync/atomic"
	"time"
)

type KnownFinding struct {
	Property   string `json:"property"`
	Obligation string `json:"obligation"`
	Class      string `json:"class,omitempty"`
	Status     string `json:"status"` // open | fixed
	Commit     string `json:"commit,omitempty"`
	What       string `json:"what"`
}

type KnownFindings struct {
	Findings []KnownFinding `json:"findings"`
}

func loadKnown(path string) *KnownFindings {
	kf := &KnownFindings{}
	b, err := os.ReadFile(path)
	if err != nil {
		return kf
	}
	json.Unmarshal(b, kf)
	return kf
}

// propsOf decides which properties an obligation counts for.
func propsOf(o *Obligation, ct *Contract) []string {
	if len(o.Props) > 0 {
		// C10 (independence from aliasing and from the receiver's previous contents) is the
		// corollary of the result-determining postconditions being proved with pointers,
		// buffers and old receiver state unconstrained: every such clause also counts for C10.
		if (o.Kind == "ensures" || o.Kind == "panics" || o.Kind == "onpanic") && !hasProp(o.Props, "C10") {
			for _, p := range []string{"C01", "C02", "C03"} {
				if hasProp(o.Props, p) {
					return append(append([]string(nil), o.Props...), "C10")
				}
			}
		}
		return o.Props
	}
	kind := o.Kind
	set := map[string]bool{}
	if ct != nil && ct.Tags != nil {
		if t, ok := ct.Tags[kind]; ok {
			return t
		}
		if kind != "safety" && kind != "frame" {
			for _, p := range ct.Tags["support"] {
				set[p] = true
			}
		}
	}
	switch kind {
	case "safety":
		return []string{"C04"}
	case "frame":
		return []string{"C09", "C18"}
	}
	// support obligations (proof cuts, lemma premises, callee preconditions, loop invariants):
	// every postcondition of the function is proved under the facts they establish, so they
	// count for the union of the properties of the function's own clauses (plus the tags)
	if ct == nil {
		return sortedKeys(set)
	}
	for _, c := range ct.Ensures {
		for _, p := range c.Props {
			set[p] = true
		}
	}
	for _, c := range ct.Panics {
		for _, p := range c.Props {
			set[p] = true
		}
	}
	for _, c := range ct.OnPanic {
		for _, p := range c.Props {
			set[p] = true
		}
	}
	return sortedKeys(set)
}

func hasProp(ps []string, p string) bool {
	for _, x := range ps {
		if x == p {
			return true
		}
	}
	return false
}

type genResult struct {
	key string
	fc  *FnCtx
	err error
}

// genAll generates the obligations of every function with status proved.
func (e *Engine) genAll(keys []string) []genResult {
	out := make([]genResult, len(keys))
	var wg sync.WaitGroup
	sem := make(chan struct{}, runtime.NumCPU())
	for i, k := range keys {
		wg.Add(1)
		go func(i int, k string) {
			defer wg.Done()
			sem <- struct{}{}
			defer func() { <-sem }()
			fc, err := e.genFunction(k)
			out[i] = genResult{k, fc, err}
		}(i, k)
	}
	wg.Wait()
	return out
}

func (e *Engine) provedKeys() []string {
	var keys []string
	for k, c := range e.cs.Funcs {
		if c.Status == "proved" && !c.Extern && !c.Inline && !strings.HasPrefix(k, "$") && !strings.HasPrefix(k, "iface:") {
			if _, ok := e.funcs[k]; ok {
				keys = append(keys, k)
			} else if !strings.Contains(k, ":") {
				keys = append(keys, k) // reported as missing
			}
		}
	}
	sort.Strings(keys)
	return keys
}

type oblSummary struct {
	Name    string  `json:"name"`
	Queries int     `json:"queries"`
	Result  string  `json:"result"`
	Backend string  `json:"backend"`
	TimeS   float64 `json:"time_s"`
	Clause  string  `json:"clause,omitempty"`
}

func cmdCheck(args []string) {
	fs := flag.NewFlagSet("check", flag.ExitOnError)
	prop := fs.String("p", "", "property id")
	tier := fs.String("tier", "quick", "quick|thorough")
	repo := fs.String("repo", "/repo", "repository")
	verif := fs.String("verif", "/verif", "verif directory")
	fs.Parse(args)
	if *prop == "" {
		usage()
	}
	if t := os.Getenv("VERIF_TIER"); t != "" && (t == "quick" || t == "thorough") {
		*tier = t
	}
	seed := 1
	if sd := os.Getenv("VERIF_SEED"); sd != "" {
		if n, err := strconv.Atoi(sd); err == nil {
			seed = n
		}
	}
	t0 := time.Now()
	rep := runCheck(*repo, *verif, *prop, *tier, seed, nil)
	runBounded(*repo, *verif, *prop, *tier, seed, rep)
	rep.WallS = time.Since(t0).Seconds()
	writeEvidence(*verif, rep)
	for _, l := range rep.Lines {
		fmt.Println(l)
	}
	fmt.Printf("property %s: %d obligations, %d discharged, %d known findings, %d violations, %.1fs\n", *prop, rep.Obligations, rep.Discharged, len(rep.KnownSeen), rep.Violations, rep.WallS)
	if rep.Violations > 0 {
		os.Exit(1)
	}
}

type CheckReport struct {
	Property    string
	Tier        string
	Seed        int
	Obligations int
	Discharged  int
	Queries     int
	ByBackend   map[string]int
	SolverTimeS float64
	Functions   map[string][]string
	Assumed     []string
	Trusted     []string
	Lemmas      []string
	Samples     []oblSummary
	KnownSeen   []string
	Violations  int
	Lines       []string
	Failed      []oblSummary
	WallS       float64
	Covers      map[string]string
	Bounded     []map[string]interface{}
	Degraded    []string
	Notes       []string
}

// runCheck is the core of `dvc check`; overlay (optional) replaces source files (selftest).
func runCheck(repo, verif, prop, tier string, seed int, overlay map[string][]byte) *CheckReport {
	rep := &CheckReport{Property: prop, Tier: tier, Seed: seed, ByBackend: map[string]int{}, Functions: map[string][]string{}, Covers: map[string]string{}, Samples: []oblSummary{}, KnownSeen: []string{}, Failed: []oblSummary{}, Notes: []string{}, Bounded: []map[string]interface{}{}}
	e, err := loadEngineOverlay(repo, "verif", overlay)
	if err != nil {
		// the tree does not load (e.g. does not compile): nothing can be decided; report as violation of the check's own precondition
		rep.Violations = 1
		rp := writeReplay(verif, prop, "load", map[string]interface{}{"obligation": "load", "error": err.Error()})
		rep.Lines = append(rep.Lines, fmt.Sprintf("VIOLATION property=%s replay=%s no-failing-input-found (repository does not load: %v)", prop, rp, err))
		return rep
	}
	known := loadKnown(filepath.Join(verif, "known_findings.json"))
	keys := e.provedKeys()
	gens := e.genAll(keys)
	d := newDischarger(tier)
	defer d.cleanup()

	type group struct {
		name  string
		obls  []*Obligation
		fkey  string
		props []string
	}
	groups := map[string]*group{}
	var order []string
	relevantFuncs := map[string]bool{}
	usedLemmas := map[string]bool{}
	assumed := map[string]bool{}
	intr := map[string]bool{}
	var covers []*Obligation
	for _, g := range gens {
		ct := e.cs.Funcs[g.key]
		if g.fc == nil {
			// contract for a function that no longer exists: only matters if it carries this property
			if ct != nil && contractMentions(ct, prop) {
				rep.Degraded = append(rep.Degraded, fmt.Sprintf("%s: %v", g.key, g.err))
			}
			continue
		}
		rel := false
		for _, o := range g.fc.obls {
			ps := propsOf(o, ct)
			if !hasProp(ps, prop) {
				continue
			}
			rel = true
			gr := groups[o.Name]
			if gr == nil {
				gr = &group{name: o.Name, fkey: g.key, props: ps}
				groups[o.Name] = gr
				order = append(order, o.Name)
			}
			gr.obls = append(gr.obls, o)
		}
		if g.err != nil && (rel || contractMentions(ct, prop)) {
			rep.Degraded = append(rep.Degraded, fmt.Sprintf("%s: %v", g.key, g.err))
			rel = true
		}
		if rel {
			relevantFuncs[g.key] = true
			for l := range g.fc.usedLemmas {
				usedLemmas[l] = true
			}
			for a := range g.fc.usedAssumed {
				assumed[a] = true
			}
			for a := range g.fc.usedIntrinsics {
				intr[a] = true
			}
			covers = append(covers, g.fc.covers...)
		}
	}
	// lemma obligations used by the relevant functions (with the lemmas they use in turn)
	if len(usedLemmas) > 0 {
		lobls, lerr := e.lemmaObligations()
		if lerr != nil {
			rep.Degraded = append(rep.Degraded, "lemmas: "+lerr.Error())
		}
		closure := map[string]bool{}
		var add func(n string)
		add = func(n string) {
			if closure[n] {
				return
			}
			closure[n] = true
			if lm := e.cs.Lemmas[n]; lm != nil {
				for _, u := range lm.Uses {
					add(u.Name)
				}
			}
		}
		for l := range usedLemmas {
			add(l)
		}
		for _, o := range lobls {
			if closure[o.Text] {
				gr := groups[o.Name]
				if gr == nil {
					gr = &group{name: o.Name, fkey: "lemma"}
					groups[o.Name] = gr
					order = append(order, o.Name)
				}
				gr.obls = append(gr.obls, o)
			}
		}
		for l := range closure {
			if lm := e.cs.Lemmas[l]; lm != nil && lm.Axiom {
				rep.Trusted = append(rep.Trusted, "axiom "+l+" (defining equation of the ghost functions V/P)")
			} else {
				rep.Lemmas = append(rep.Lemmas, l)
			}
		}
		sort.Strings(rep.Lemmas)
	}
	var all []*Obligation
	for _, n := range order {
		all = append(all, groups[n].obls...)
	}
	d.dischargeAll(all, runtime.NumCPU())
	// second chance for undecided obligations (timeout/unknown, never for sat): a loaded
	// machine must not turn a slow proof into an alarm - rerun them a few at a time with
	// a three times longer budget
	var retry []*Obligation
	for _, o := range all {
		if o.Result == "timeout" || o.Result == "unknown" {
			o.Result, o.Solver = "", ""
			retry = append(retry, o)
		}
	}
	if len(retry) > 12 {
		// that many undecided obligations are not a load problem; keep the verdicts
		for _, o := range retry {
			o.Result, o.Solver = "timeout", "undecided (first pass)"
		}
		retry = nil
	}
	if len(retry) > 0 {
		d2 := newDischarger(tier)
		d2.quickS, d2.fullS = 10, d.fullS*2
		d2.dischargeAll(retry, 4)
		rep.Notes = append(rep.Notes, fmt.Sprintf("%d obligations were undecided in the first pass and rerun with a longer budget", len(retry)))
	}
	d.dischargeAll(covers, runtime.NumCPU())
	rep.Queries = len(all)
	// vacuity: every relevant function needs a reachable exit
	reach := map[string]int{}
	total := map[string]int{}
	for _, c := range covers {
		total[c.Func]++
		if c.Result != "unsat" {
			reach[c.Func]++
		}
	}
	for _, g := range gens {
		if g.fc == nil || !relevantFuncs[g.key] {
			continue
		}
		if total[g.key] > 0 && reach[g.key] == 0 && g.fc.panicExits == 0 {
			rep.Covers[g.key] = "VACUOUS"
			rep.Violations++
			rp := writeReplay(verif, prop, g.key+".vacuous", map[string]interface{}{"obligation": g.key + ".cover", "what": "no return of the function is reachable under its preconditions (contradictory contract)"})
			rep.Lines = append(rep.Lines, fmt.Sprintf("VIOLATION property=%s replay=%s no-failing-input-found (vacuous contract for %s)", prop, rp, g.key))
		} else {
			rep.Covers[g.key] = fmt.Sprintf("%d/%d returns reachable", reach[g.key], total[g.key])
		}
	}
	for _, n := range order {
		gr := groups[n]
		sum := oblSummary{Name: n, Queries: len(gr.obls), Result: "unsat"}
		var worst *Obligation
		for _, o := range gr.obls {
			rep.SolverTimeS += o.TimeS
			if o.TimeS > sum.TimeS {
				sum.TimeS = o.TimeS
			}
			if o.Result == "unsat" {
				rep.ByBackend[o.Solver]++
				if sum.Backend == "" || sum.Backend == "trivial" {
					sum.Backend = o.Solver
				}
			} else if worst == nil || (o.Result == "sat" && worst.Result != "sat") {
				worst = o
			}
			if sum.Clause == "" {
				sum.Clause = o.Text
			}
		}
		if worst != nil {
			sum.Result = worst.Result
			sum.Backend = worst.Solver
		}
		// known finding?
		isKnown := false
		for _, k := range known.Findings {
			if k.Status == "open" && k.Property == prop && k.Obligation == n {
				isKnown = true
				if worst != nil {
					rep.KnownSeen = append(rep.KnownSeen, n)
					rep.Lines = append(rep.Lines, fmt.Sprintf("KNOWN-FINDING: property=%s %s %s (solver: %s)", prop, n, k.What, worst.Result))
				} else {
					rep.Notes = append(rep.Notes, "known finding "+n+" did not reproduce in this run (obligation discharged)")
				}
			}
		}
		if isKnown {
			continue
		}
		rep.Obligations++
		if worst == nil {
			rep.Discharged++
			if len(rep.Samples) < 6 && sum.Backend != "trivial" {
				rep.Samples = append(rep.Samples, sum)
			}
			continue
		}
		rep.Violations++
		rep.Failed = append(rep.Failed, sum)
		if worst.Query != "" {
			// keep the undecided/refuted query next to the replay file (replays/ is scratch)
			os.MkdirAll(filepath.Join(verif, "replays", prop), 0o755)
			os.WriteFile(filepath.Join(verif, "replays", prop, mangle(n)+".smt2"), []byte(worst.Query), 0o644)
		}
		rp, confirmed := e.replayViolation(verif, prop, worst, d)
		line := fmt.Sprintf("VIOLATION property=%s replay=%s", prop, rp)
		if !confirmed {
			line += " no-failing-input-found"
		}
		rep.Lines = append(rep.Lines, line)
		rep.Lines = append(rep.Lines, fmt.Sprintf("  failed obligation %s [%s by %s] %s", n, worst.Result, worst.Solver, worst.Text))
	}
	for _, dg := range rep.Degraded {
		// a function under contract that the generator can no longer process: undecided, reported as a violation without input
		rep.Violations++
		rp := writeReplay(verif, prop, "degraded", map[string]interface{}{"obligation": "generator", "what": dg})
		rep.Lines = append(rep.Lines, fmt.Sprintf("VIOLATION property=%s replay=%s no-failing-input-found (%s)", prop, rp, dg))
	}
	var fl []string
	for k := range relevantFuncs {
		fl = append(fl, k)
	}
	sort.Strings(fl)
	rep.Functions["proved"] = fl
	rep.Assumed = sortedKeys(assumed)
	for a := range intr {
		rep.Trusted = append(rep.Trusted, "intrinsic: "+a)
	}
	sort.Strings(rep.Trusted)
	if rep.Obligations == 0 && rep.Violations == 0 {
		rep.Violations++
		rp := writeReplay(verif, prop, "empty", map[string]interface{}{"obligation": "none", "what": "no obligation is tagged with this property: vacuous check"})
		rep.Lines = append(rep.Lines, fmt.Sprintf("VIOLATION property=%s replay=%s no-failing-input-found (no obligations generated)", prop, rp))
	}
	// obligation-count floor (vacuity guard against silently losing clauses)
	if exp := expectedCount(verif, prop); exp > 0 && rep.Obligations+len(rep.KnownSeen) < exp && overlay == nil {
		rep.Violations++
		rp := writeReplay(verif, prop, "count", map[string]interface{}{"obligation": "count", "what": fmt.Sprintf("%d obligations generated, %d expected", rep.Obligations, exp)})
		rep.Lines = append(rep.Lines, fmt.Sprintf("VIOLATION property=%s replay=%s no-failing-input-found (only %d of the expected %d obligations were generated)", prop, rp, rep.Obligations, exp))
	}
	_ = atomic.LoadInt64
	return rep
}

func contractMentions(ct *Contract, prop string) bool {
	if ct == nil {
		return false
	}
	for _, cl := range [][]*Clause{ct.Requires, ct.Ensures, ct.Panics, ct.OnPanic} {
		for _, c := range cl {
			if hasProp(c.Props, prop) {
				return true
			}
		}
	}
	for _, t := range ct.Tags {
		if hasProp(t, prop) {
			return true
		}
	}
	return false
}

func expectedCount(verif, prop string) int {
	b, err := os.ReadFile(filepath.Join(verif, "expected_obligations.json"))
	if err != nil {
		return 0
	}
	m := map[string]int{}
	json.Unmarshal(b, &m)
	return m[prop]
}

func writeReplay(verif, prop, name string, body map[string]interface{}) string {
	dir := filepath.Join(verif, "replays", prop)
	os.MkdirAll(dir, 0o755)
	p := filepath.Join(dir, mangle(name)+".json")
	b, _ := json.MarshalIndent(body, "", " ")
	os.WriteFile(p, b, 0o644)
	return p
}

// replayViolation writes the replay file of a failed obligation.  (Model replay on the
// real code is added by replay.go; until it confirms, the violation carries no input.)
func (e *Engine) replayViolation(verif, prop string, o *Obligation, d *Discharger) (string, bool) {
	body := map[string]interface{}{
		"property":   prop,
		"obligation": o.Name,
		"function":   o.Func,
		"clause":     o.Text,
		"where":      o.Where,
		"path":       o.Trace,
		"verdict":    o.Result,
		"solver":     o.Solver,
	}
	if o.Model != nil {
		body["solver_output"] = o.Model["solver_output"]
	}
	confirmed := false
	if r := e.tryReplay(verif, prop, o, d); r != nil {
		for k, v := range r.Body {
			body[k] = v
		}
		confirmed = r.Confirmed
	}
	return writeReplay(verif, prop, o.Name, body), confirmed
}

func writeEvidence(verif string, rep *CheckReport) {
	level := "proof"
	cov := map[string]interface{}{
		"obligations":  rep.Obligations,
		"discharged":   rep.Discharged,
		"queries":      rep.Queries,
		"checker_cmd":  fmt.Sprintf("bin/dvc check -p %s -tier %s", rep.Property, rep.Tier),
		"trusted_base": append([]string{"the VC generator itself (engine/, go/ssa naive form as front end)", "GOARCH=amd64: 64-bit words, B = 10^19", "termination is not verified", "Go type safety: integers are in the range of their type, slices satisfy 0 <= len <= cap <= 2^48 (heapAddrBits)"}, rep.Trusted...),
		"by_backend":   rep.ByBackend,
		"solver_time_s": rep.SolverTimeS,
		"functions":    rep.Functions,
		"assumed_contracts": rep.Assumed,
		"lemmas_proved": rep.Lemmas,
		"covers":       rep.Covers,
		"samples":      rep.Samples,
		"known_findings_seen": rep.KnownSeen,
		"failed":       rep.Failed,
		"bounded":      rep.Bounded,
		"notes":        rep.Notes,
		"explanation":  "obligations = named contract clauses / implicit safety and frame conditions tagged with this property, each discharged on every path of the function it belongs to; integers are mathematical with explicit wrap-around; every query is quantifier-free after skolemisation and instantiation",
	}
	if rep.Obligations == 0 || rep.Discharged == 0 {
		level = "other"
	}
	ev := map[string]interface{}{
		"property_id": rep.Property,
		"tier":        rep.Tier,
		"seed":        rep.Seed,
		"level":       level,
		"coverage":    cov,
		"assumptions": append([]string{"callee contracts with status assumed/bounded are listed under assumed_contracts"}, rep.Assumed...),
		"wall_s":      rep.WallS,
		"violations":  rep.Violations,
	}
	os.MkdirAll(filepath.Join(verif, "evidence"), 0o755)
	b, _ := json.MarshalIndent(ev, "", " ")
	os.WriteFile(filepath.Join(verif, "evidence", rep.Property+".json"), b, 0o644)
}
