package main

import (
	"fmt"
	"go/constant"
	"go/token"
	"go/types"
	"math/big"

	"golang.org/x/tools/go/ssa"
)

type bigInt = big.Int

func newBig(v int64) *big.Int { return big.NewInt(v) }

func (fc *FnCtx) checkPathCap() {
	if fc.npaths > fc.maxPaths {
		panic(unsupported(fmt.Sprintf("more than %d paths", fc.maxPaths)))
	}
}

// execBlock runs block b of fn from instruction index i; k is the continuation at return.
func (fc *FnCtx) execBlock(s *State, fn *ssa.Function, b *ssa.BasicBlock, i int, k retK) {
	fc.checkPathCap()
	if i == 0 {
		if li := fc.loops[b]; li != nil && fn == fc.fn {
			if s.entered[b] {
				fc.atBackEdge(s, li)
				return
			}
			s = fc.enterLoop(s, li)
			if s == nil {
				return
			}
		} else if li := fc.inlineLoops[b]; li != nil {
			panic(unsupported("loop in inlined function " + funcKey(fn)))
		}
	}
	for ; i < len(b.Instrs); i++ {
		in := b.Instrs[i]
		switch x := in.(type) {
		case *ssa.If:
			c := fc.val(s, x.Cond)
			if c.T.isTrue() {
				fc.jump(s, fn, b, b.Succs[0], k)
				return
			}
			if c.T.isFalse() {
				fc.jump(s, fn, b, b.Succs[1], k)
				return
			}
			if fc.execIfMerged(s, fn, b, c.T, k) {
				return
			}
			s2 := s.clone()
			s.assume(c.T)
			s.trace = append(s.trace, fmt.Sprintf("b%d:T", b.Index))
			fc.jump(s, fn, b, b.Succs[0], k)
			s2.assume(mkNot(c.T))
			s2.trace = append(s2.trace, fmt.Sprintf("b%d:F", b.Index))
			fc.jump(s2, fn, b, b.Succs[1], k)
			return
		case *ssa.Jump:
			fc.jump(s, fn, b, b.Succs[0], k)
			return
		case *ssa.Return:
			var rets []Val
			for _, r := range x.Results {
				rets = append(rets, fc.val(s, r))
			}
			k(s, rets)
			return
		case *ssa.Panic:
			fc.execPanic(s, fn, x, k)
			return
		case *ssa.Call:
			// calls may fork (inline callee, exceptional path); continue in a continuation
			idx := i
			fc.execCall(s, fn, x, func(s2 *State, res Val) {
				s2.regs[x] = res
				fc.execBlock(s2, fn, b, idx+1, k)
			}, k)
			return
		case *ssa.TypeAssert:
			idx := i
			fc.execTypeAssert(s, fn, x, func(s2 *State, res Val) {
				s2.regs[x] = res
				fc.execBlock(s2, fn, b, idx+1, k)
			}, k)
			return
		default:
			fc.execInstr(s, fn, in)
		}
	}
	panic(unsupported("block without terminator"))
}

func (fc *FnCtx) jump(s *State, fn *ssa.Function, from, to *ssa.BasicBlock, k retK) {
	s.prev = from
	if fn == fc.fn {
		// leaving a loop: its write frame no longer applies to what follows
		for n := len(s.frames); n > 1 && s.frames[n-1].loop != nil && !s.frames[n-1].loop.blocks[to]; n = len(s.frames) {
			s.frames = s.frames[: n-1 : n-1]
		}
	}
	if n := len(s.stopAt); n > 0 && s.stopAt[n-1].b == to {
		s.stopAt[n-1].f(s)
		return
	}
	fc.execBlock(s, fn, to, 0, k)
}

// val returns the symbolic value of an SSA operand.
func (fc *FnCtx) val(s *State, v ssa.Value) Val {
	switch x := v.(type) {
	case *ssa.Const:
		return fc.constVal(x)
	case *ssa.Global:
		return Val{K: VGlobPtr, Glob: x, Typ: x.Type()}
	case *ssa.Function:
		return Val{K: VOpaque, T: mkI(1), Typ: x.Type(), Dyn: "func:" + x.Name()}
	case *ssa.Builtin:
		return Val{K: VOpaque, T: mkI(1), Typ: x.Type()}
	}
	if r, ok := s.regs[v]; ok {
		return r
	}
	panic(unsupported(fmt.Sprintf("value %s (%T) not available", v.Name(), v)))
}

func (fc *FnCtx) constVal(c *ssa.Const) Val {
	t := c.Type()
	if c.Value == nil {
		return fc.zeroVal(t)
	}
	switch c.Value.Kind() {
	case constant.Bool:
		return boolVal(mkBool(constant.BoolVal(c.Value)))
	case constant.Int:
		if _, ok := intTypeOf(t); ok {
			return intVal(mkInt(constToBig(c.Value)), t)
		}
		if isFloatType(t) {
			return Val{K: VOpaque, T: fc.floatConst(c.Value.ExactString()), Typ: t}
		}
	case constant.Float:
		if isFloatType(t) {
			return Val{K: VOpaque, T: fc.floatConst(c.Value.ExactString()), Typ: t}
		}
	case constant.String:
		sv := constant.StringVal(c.Value)
		return Val{K: VOpaque, T: fc.stringConst(sv), Typ: t, Dyn: "str:" + sv}
	}
	if iv := constToBig(c.Value); iv != nil {
		if _, ok := intTypeOf(t); ok {
			return intVal(mkInt(iv), t)
		}
	}
	panic(unsupported("constant " + c.String()))
}

func (fc *FnCtx) floatConst(s string) *Term {
	return mkConst("fconst_"+mangle(s), SInt) // one uninterpreted constant per float literal
}

func (fc *FnCtx) stringConst(s string) *Term {
	h := 0
	for _, c := range s {
		h = h*131 + int(c)
		h &= 0xfffffff
	}
	return mkConst(fmt.Sprintf("str_%d_%d", len(s), h), SInt)
}

// ---------- straight-line instructions ----------

func (fc *FnCtx) execInstr(s *State, fn *ssa.Function, in ssa.Instruction) {
	switch x := in.(type) {
	case *ssa.DebugRef:
	case *ssa.Alloc:
		et := x.Type().Underlying().(*types.Pointer).Elem()
		if at, ok := et.Underlying().(*types.Array); ok {
			// new([N]T): a fresh zeroed array; the pointer is modelled as the full slice over it
			arr := fc.allocArray(s)
			n := mkI(at.Len())
			s.regs[x] = sliceVal(arr, mkI(0), n, n, types.NewSlice(at.Elem()))
			return
		}
		_, isDirectStruct := et.Underlying().(*types.Struct)
		if st, sname, ok := structOf(et); ok && isDirectStruct && !isValueStruct(sname) {
			// struct objects live on the heap at a fresh address
			a := fc.newObject(s, sname, st, x.Comment)
			s.regs[x] = ptrVal(a, x.Type())
			return
		}
		c := fc.allCells[x]
		if c == nil {
			c = &Cell{Name: x.Comment, Typ: et, Alloc: x, id: len(fc.allCells)}
			fc.allCells[x] = c
			if x.Comment != "" {
				fc.cellsByName[x.Comment] = append(fc.cellsByName[x.Comment], c)
			}
		}
		s.allocs[x] = c
		s.cells[c] = fc.zeroVal(et)
		s.regs[x] = Val{K: VCellPtr, Cell: c, Typ: x.Type()}
	case *ssa.Store:
		fc.store(s, in, fc.val(s, x.Addr), fc.val(s, x.Val))
	case *ssa.UnOp:
		s.regs[x] = fc.unop(s, x)
	case *ssa.BinOp:
		s.regs[x] = fc.binop(s, x)
	case *ssa.FieldAddr:
		base := fc.val(s, x.X)
		st, sname, ok := structOf(x.X.Type())
		if !ok {
			panic(unsupported("FieldAddr on non-struct"))
		}
		switch base.K {
		case VPtr:
			fc.oblige(s, fmt.Sprintf("%s.nil#%d", fc.key, fc.ordinals[in]), "safety", nil,
				fmt.Sprintf("nil dereference of %s (field %s)", x.X.Name(), st.Field(x.Field).Name()), mkNot(mkEq(base.T, mkI(0))), posStr(fc.eng.fset, x.Pos()))
			s.assume(mkNot(mkEq(base.T, mkI(0))))
			s.regs[x] = Val{K: VFieldPtr, Base: base.T, SName: sname, Field: x.Field, Typ: x.Type()}
		case VCellPtr:
			// field of a struct value held in a local cell
			s.regs[x] = Val{K: VFieldPtr, Cell: base.Cell, Field: x.Field, Typ: x.Type(), SName: sname}
		default:
			panic(unsupported("FieldAddr base kind"))
		}
	case *ssa.Field:
		v := fc.val(s, x.X)
		if v.K != VStruct {
			panic(unsupported("Field on non-struct value"))
		}
		s.regs[x] = v.Elems[x.Field]
	case *ssa.IndexAddr:
		base := fc.val(s, x.X)
		idx := fc.val(s, x.Index)
		switch base.K {
		case VSlice:
			name := fmt.Sprintf("%s.index#%d", fc.key, fc.ordinals[in])
			fc.oblige(s, name, "safety", nil, fmt.Sprintf("index %s[%s] in range", x.X.Name(), x.Index.Name()),
				mkAnd(mkLe(mkI(0), idx.T), mkLt(idx.T, base.Len)), posStr(fc.eng.fset, x.Pos()))
			s.assume(mkAnd(mkLe(mkI(0), idx.T), mkLt(idx.T, base.Len)))
			b := base
			s.regs[x] = Val{K: VElemPtr, Sl: &b, Idx: idx.T, Typ: x.Type()}
		case VGlobPtr:
			at := base.Glob.Type().Underlying().(*types.Pointer).Elem().Underlying().(*types.Array)
			name := fmt.Sprintf("%s.index#%d", fc.key, fc.ordinals[in])
			g := mkAnd(mkLe(mkI(0), idx.T), mkLt(idx.T, mkI(at.Len())))
			fc.oblige(s, name, "safety", nil, fmt.Sprintf("index %s[%s] in range", base.Glob.Name(), x.Index.Name()), g, posStr(fc.eng.fset, x.Pos()))
			s.assume(g)
			s.regs[x] = Val{K: VGlobElem, Glob: base.Glob, Idx: idx.T, Typ: x.Type()}
		default:
			panic(unsupported(fmt.Sprintf("IndexAddr on %v", base.K)))
		}
	case *ssa.Slice:
		s.regs[x] = fc.sliceOp(s, x)
	case *ssa.MakeSlice:
		ln := fc.val(s, x.Len)
		cp := fc.val(s, x.Cap)
		name := fmt.Sprintf("%s.makeslice#%d", fc.key, fc.ordinals[in])
		g := mkAnd(mkLe(mkI(0), ln.T), mkLe(ln.T, cp.T), mkLe(cp.T, mkInt(pow2(48))))
		fc.oblige(s, name, "safety", nil, "make: 0 <= len <= cap (and cap within the address space)", g, posStr(fc.eng.fset, x.Pos()))
		s.assume(g)
		arr := fc.allocArray(s)
		s.regs[x] = sliceVal(arr, mkI(0), ln.T, cp.T, x.Type())
		if et := fc.eltyTerm(s.regs[x]); et != nil {
			s.assume(et)
		}
	case *ssa.Convert:
		s.regs[x] = fc.convert(s, x)
	case *ssa.ChangeType:
		v := fc.val(s, x.X)
		v.Typ = x.Type()
		s.regs[x] = v
	case *ssa.ChangeInterface:
		v := fc.val(s, x.X)
		v.Typ = x.Type()
		s.regs[x] = v
	case *ssa.MakeInterface:
		s.regs[x] = fc.makeInterface(s, x)
	case *ssa.Extract:
		t := fc.val(s, x.Tuple)
		if t.K != VTuple {
			panic(unsupported("Extract from non-tuple"))
		}
		s.regs[x] = t.Elems[x.Index]
	case *ssa.Phi:
		if s.phiDone == x.Block() {
			if _, ok := s.regs[x]; ok {
				return
			}
		}
		found := false
		for i, p := range x.Block().Preds {
			if p == s.prev {
				s.regs[x] = fc.val(s, x.Edges[i])
				found = true
				break
			}
		}
		if !found {
			panic(unsupported("phi without matching predecessor"))
		}
	case *ssa.RunDefers:
		// deferred closures are run by the return continuation of functions that have them
		fc.runDefersNormal(s, fn)
	case *ssa.Defer:
		cl, ok := x.Call.Value.(*ssa.MakeClosure)
		if !ok {
			panic(unsupported("defer of a non-closure"))
		}
		d := deferred{fn: cl.Fn.(*ssa.Function)}
		for _, b := range cl.Bindings {
			d.free = append(d.free, fc.val(s, b))
		}
		s.defers = append(s.defers, d)
	case *ssa.MakeClosure:
		s.regs[x] = Val{K: VOpaque, T: mkI(1), Typ: x.Type(), Dyn: "closure"}
	default:
		panic(unsupported(fmt.Sprintf("instruction %T: %s", in, in)))
	}
}

// value structs are small structs handled by value in local cells (no heap identity)
func isValueStruct(sname string) bool { return sname == "magic" || sname == "ErrNaN" }

func (fc *FnCtx) newObject(s *State, sname string, st *types.Struct, why string) *Term {
	a := fc.fresh("obj_"+sname, SInt)
	nobj := s.heap["nobj"]
	s.assume(mkGe(a, nobj))
	s.heap["nobj"] = mkAdd(a, mkI(1))
	for i := 0; i < st.NumFields(); i++ {
		fc.storeField(s, sname, st.Field(i), a, fc.zeroVal(st.Field(i).Type()))
	}
	return a
}

func (fc *FnCtx) allocArray(s *State) *Term {
	a := fc.fresh("arr", SInt)
	n := s.heap["nalloc"]
	s.assume(mkGe(a, n))
	s.heap["nalloc"] = mkAdd(a, mkI(1))
	s.heap["Mem"] = mkStore(fc.heapCur(s, "Mem", SMem), a, mkK0())
	return a
}

func (fc *FnCtx) memSel(h map[string]*Term, arr, idx *Term) *Term {
	return mkSelect(mkSelect(fc.heapIn(h, "Mem", SMem), arr), idx)
}

func elemTypeOfSlice(t types.Type) types.Type {
	if sl, ok := t.Underlying().(*types.Slice); ok {
		return sl.Elem()
	}
	return nil
}

// load through a pointer-like value
func (fc *FnCtx) load(s *State, p Val, t types.Type) Val {
	switch p.K {
	case VCellPtr:
		v, ok := s.cells[p.Cell]
		if !ok {
			panic(unsupported("load of unallocated cell " + p.Cell.Name))
		}
		return v
	case VFieldPtr:
		if p.Cell != nil {
			v := s.cells[p.Cell]
			return v.Elems[p.Field]
		}
		st := fc.structByName(p)
		v := fc.loadFieldIn(s.heap, p.SName, st.Field(p.Field), p.Base)
		fc.ensureHeapSyms(s)
		s.assume(fc.typeAssume(v, s.heap["nalloc"], s.heap["nobj"]))
		return v
	case VElemPtr:
		et := elemTypeOfSlice(p.Sl.Typ)
		if _, ok := intTypeOf(et); !ok {
			panic(unsupported("load of non-integer slice element " + et.String()))
		}
		v := intVal(fc.memSel(s.heap, p.Sl.Arr, mkAdd(p.Sl.Off, p.Idx)), et)
		fc.ensureHeapSyms(s)
		s.assume(fc.typeAssume(v, nil, nil))
		return v
	case VGlobPtr:
		return fc.loadGlobal(s, p.Glob)
	case VGlobElem:
		return fc.loadGlobalElem(s, p.Glob, p.Idx)
	case VPtr:
		if v, ok := fc.loadSlicePtr(s.heap, p); ok {
			s.assume(fc.typeAssume(v, s.heap["nalloc"], s.heap["nobj"]))
			return v
		}
		// whole-struct load
		st, sname, ok := structOf(p.Typ)
		if !ok {
			panic(unsupported("load through pointer to " + p.Typ.String()))
		}
		v := Val{K: VStruct, Typ: t}
		for i := 0; i < st.NumFields(); i++ {
			v.Elems = append(v.Elems, fc.loadFieldIn(s.heap, sname, st.Field(i), p.T))
		}
		s.assume(fc.typeAssume(v, s.heap["nalloc"], s.heap["nobj"]))
		return v
	}
	panic(unsupported(fmt.Sprintf("load through value kind %d", p.K)))
}

// loadSlicePtr reads the slice header a pointer to a (named) slice type points to.  The
// header lives in four heaps indexed by the pointer, like the fields of a struct; nothing in
// the modelled subset stores through such a pointer, so the heaps stay the entry constants and
// what a callee says about `deref(result)` is all that is known of a header.
func (fc *FnCtx) loadSlicePtr(h map[string]*Term, p Val) (Val, bool) {
	pt, ok := p.Typ.Underlying().(*types.Pointer)
	if !ok {
		return Val{}, false
	}
	if _, ok := pt.Elem().Underlying().(*types.Slice); !ok {
		return Val{}, false
	}
	f := func(comp string) *Term { return mkSelect(fc.heapIn(h, "SlicePtr_"+comp, SArr), p.T) }
	return sliceVal(f("arr"), f("off"), f("len"), f("cap"), pt.Elem()), true
}

func (fc *FnCtx) ensureHeapSyms(s *State) {}

func (fc *FnCtx) structByName(p Val) *types.Struct {
	pt := p.Typ
	_ = pt
	if st, ok := fc.structTypes[p.SName]; ok {
		return st
	}
	panic(unsupported("unknown struct " + p.SName))
}

func (fc *FnCtx) store(s *State, in ssa.Instruction, p Val, v Val) {
	switch p.K {
	case VCellPtr:
		s.cells[p.Cell] = v
	case VFieldPtr:
		if p.Cell != nil {
			sv := s.cells[p.Cell]
			el := append([]Val(nil), sv.Elems...)
			el[p.Field] = v
			sv.Elems = el
			s.cells[p.Cell] = sv
			return
		}
		st := fc.structByName(p)
		fc.checkFieldWrite(s, in, p.Base, p.SName, st.Field(p.Field).Name())
		fc.storeField(s, p.SName, st.Field(p.Field), p.Base, v)
	case VElemPtr:
		idx := mkAdd(p.Sl.Off, p.Idx)
		fc.checkMemWrite(s, in, p.Sl.Arr, idx, idx, "store")
		mem := fc.heapCur(s, "Mem", SMem)
		s.heap["Mem"] = mkStore(mem, p.Sl.Arr, mkStore(mkSelect(mem, p.Sl.Arr), idx, v.T))
	case VPtr:
		st, sname, ok := structOf(p.Typ)
		if !ok || v.K != VStruct {
			panic(unsupported("store through pointer to " + p.Typ.String()))
		}
		name := fmt.Sprintf("%s.nil#store%d", fc.key, fc.ordinals[in])
		fc.oblige(s, name, "safety", nil, "nil dereference in struct assignment", mkNot(mkEq(p.T, mkI(0))), "")
		for i := 0; i < st.NumFields(); i++ {
			fc.checkFieldWrite(s, in, p.T, sname, st.Field(i).Name())
			fc.storeField(s, sname, st.Field(i), p.T, v.Elems[i])
		}
	case VGlobPtr, VGlobElem:
		panic(unsupported("store to package-level variable " + p.Glob.Name()))
	default:
		panic(unsupported(fmt.Sprintf("store through value kind %d", p.K)))
	}
}

// ---------- frame checks ----------

func (fc *FnCtx) checkFieldWrite(s *State, in ssa.Instruction, addr *Term, sname, fname string) {
	for fi, fr := range s.frames {
		if !fr.Declared {
			continue
		}
		allowed := []*Term{mkGe(addr, fr.NObj0)}
		for _, f := range fr.Fields {
			if f.SName == sname && (f.Field == "" || f.Field == fname) {
				allowed = append(allowed, mkEq(addr, f.Addr))
			}
		}
		name := fmt.Sprintf("%s.frame#%d[%s.%s]", fc.key, fc.ordinals[in], sname, fname)
		if fi > 0 {
			name += fmt.Sprintf("@%s", fr.What)
		}
		fc.oblige(s, name, "frame", []string{"C09", "C18"}, fmt.Sprintf("write to %s.%s is inside the modifies clause of %s", sname, fname, fr.What), mkOr(allowed...), instrPos(fc, in))
	}
}

func instrPos(fc *FnCtx, in ssa.Instruction) string {
	if in == nil {
		return ""
	}
	return posStr(fc.eng.fset, in.Pos())
}

// checkMemWrite: every index in [lo,hi] (inclusive, both terms) of arr must be writable.
// For a range write the caller passes a skolem index.
func (fc *FnCtx) checkMemWrite(s *State, in ssa.Instruction, arr, lo, hi *Term, what string) {
	for fi, fr := range s.frames {
		if !fr.Declared || fr.AllMem {
			continue
		}
		allowed := []*Term{mkGe(arr, fr.NAlloc0)}
		for _, r := range fr.Regions {
			allowed = append(allowed, mkAnd(mkEq(arr, r.Arr), mkLe(r.Lo, lo), mkLt(hi, r.Hi)))
		}
		name := fmt.Sprintf("%s.frame#%d[mem]", fc.key, fc.ordinals[in])
		if in == nil {
			name = fmt.Sprintf("%s.frame[%s]", fc.key, what)
		}
		if fi > 0 {
			name += "@" + fr.What
		}
		fc.oblige(s, name, "frame", []string{"C09", "C18"}, "memory write ("+what+") is inside the modifies clause of "+fr.What, mkOr(allowed...), instrPos(fc, in))
	}
}

// ---------- globals ----------

func (fc *FnCtx) loadGlobal(s *State, g *ssa.Global) Val {
	et := g.Type().Underlying().(*types.Pointer).Elem()
	name := "G_" + mangle(g.Name())
	if g.Pkg != nil && g.Pkg.Pkg.Name() != "decimal" {
		name = "G_" + g.Pkg.Pkg.Name() + "_" + mangle(g.Name())
	}
	fc.usedGlobals[g.Name()] = true
	switch et.Underlying().(type) {
	case *types.Basic:
		if isBoolType(et) {
			return boolVal(mkConst(name, SBool))
		}
		if _, ok := intTypeOf(et); ok {
			v := intVal(mkConst(name, SInt), et)
			s.assume(fc.typeAssume(v, nil, nil))
			return v
		}
	case *types.Pointer:
		v := ptrVal(mkConst(name, SInt), et)
		s.assume(mkAnd(mkLt(mkI(0), v.T), mkLt(v.T, fc.nobj0)))
		return v
	case *types.Slice:
		n := name
		v := sliceVal(mkConst(n+"_arr", SInt), mkConst(n+"_off", SInt), mkConst(n+"_len", SInt), mkConst(n+"_cap", SInt), et)
		s.assume(fc.typeAssume(v, fc.nalloc0, nil))
		return v
	case *types.Interface:
		return opaqueVal(mkConst(name, SInt), et)
	case *types.Struct:
		if st := et.Underlying().(*types.Struct); st.NumFields() == 0 {
			return Val{K: VStruct, Typ: et} // e.g. encoding/binary.BigEndian: a value without state
		}
	}
	panic(unsupported("load of global " + g.Name() + " of type " + et.String()))
}

func (fc *FnCtx) tableTerm(name string, vals []*Term) *Term {
	// a defined constant array; emitted in the query prelude
	fc.eng.registerTable(name, vals)
	return mkConst(name, SArr)
}

func (fc *FnCtx) loadGlobalElem(s *State, g *ssa.Global, idx *Term) Val {
	gi := fc.eng.globals[g.Name()]
	at := g.Type().Underlying().(*types.Pointer).Elem().Underlying().(*types.Array)
	if gi == nil {
		panic(unsupported("unknown global table " + g.Name()))
	}
	fc.usedGlobals[g.Name()] = true
	switch gi.Kind {
	case "table":
		et := at.Elem()
		if idx.isInt() && idx.Val.IsInt64() && idx.Val.Int64() >= 0 && int(idx.Val.Int64()) < len(gi.Ints) {
			return intVal(gi.Ints[idx.Val.Int64()], et)
		}
		return intVal(mkSelect(fc.tableTerm("T_"+g.Name(), gi.Ints), idx), et)
	case "structtable":
		st := at.Elem().Underlying().(*types.Struct)
		v := Val{K: VStruct, Typ: at.Elem()}
		for i := 0; i < st.NumFields(); i++ {
			f := st.Field(i)
			vals := gi.Fields[f.Name()]
			if idx.isInt() && idx.Val.IsInt64() && idx.Val.Int64() >= 0 && int(idx.Val.Int64()) < len(vals) {
				v.Elems = append(v.Elems, intVal(vals[idx.Val.Int64()], f.Type()))
			} else {
				v.Elems = append(v.Elems, intVal(mkSelect(fc.tableTerm("T_"+g.Name()+"_"+f.Name(), vals), idx), f.Type()))
			}
		}
		return v
	}
	panic(unsupported("element load from global " + g.Name()))
}

// ---------- unary / binary / conversions ----------

func (fc *FnCtx) unop(s *State, x *ssa.UnOp) Val {
	v := fc.val(s, x.X)
	switch x.Op {
	case token.MUL:
		return fc.load(s, v, x.Type())
	case token.NOT:
		return boolVal(mkNot(v.T))
	case token.SUB:
		if it, ok := intTypeOf(x.Type()); ok {
			return intVal(wrap(it, mkNeg(v.T)), x.Type())
		}
		return opaqueVal(app("fneg", SInt, v.T), x.Type())
	case token.XOR:
		if it, ok := intTypeOf(x.Type()); ok {
			if it.signed {
				return intVal(mkSub(mkI(-1), v.T), x.Type())
			}
			return intVal(mkSub(mkInt(it.max()), v.T), x.Type())
		}
	}
	panic(unsupported("unary op " + x.Op.String()))
}

func (fc *FnCtx) binop(s *State, x *ssa.BinOp) Val {
	a := fc.val(s, x.X)
	b := fc.val(s, x.Y)
	t := x.X.Type()
	// comparisons
	switch x.Op {
	case token.EQL, token.NEQ:
		var eq *Term
		switch a.K {
		case VInt, VPtr, VOpaque:
			if a.K == VOpaque && isFloatType(t) {
				eq = app("feq", SBool, a.T, b.T)
			} else {
				eq = mkEq(a.T, b.T)
			}
		case VBool:
			eq = mkEq(a.T, b.T)
		case VSlice:
			// only comparison with nil is legal
			if b.K == VSlice && b.Arr.isInt() && b.Cap.isInt() {
				eq = mkAnd(mkEq(a.Arr, mkI(0)), mkEq(a.Cap, mkI(0)))
			} else {
				eq = mkAnd(mkEq(b.Arr, mkI(0)), mkEq(b.Cap, mkI(0)))
			}
		case VCellPtr:
			eq = mkBool(b.K == VCellPtr && a.Cell == b.Cell)
		case VElemPtr:
			if b.K != VElemPtr {
				panic(unsupported("element pointer comparison"))
			}
			eq = mkAnd(mkEq(a.Sl.Arr, b.Sl.Arr), mkEq(mkAdd(a.Sl.Off, a.Idx), mkAdd(b.Sl.Off, b.Idx)))
		default:
			panic(unsupported(fmt.Sprintf("comparison of kind %d", a.K)))
		}
		if x.Op == token.NEQ {
			eq = mkNot(eq)
		}
		return boolVal(eq)
	case token.LSS, token.LEQ, token.GTR, token.GEQ:
		if isFloatType(t) {
			return boolVal(app("fcmp_"+mangle(x.Op.String()), SBool, a.T, b.T))
		}
		op := map[token.Token]string{token.LSS: "<", token.LEQ: "<=", token.GTR: ">", token.GEQ: ">="}[x.Op]
		return boolVal(mkCmp(op, a.T, b.T))
	}
	if isBoolType(t) {
		switch x.Op {
		case token.AND, token.LAND:
			return boolVal(mkAnd(a.T, b.T))
		case token.OR, token.LOR:
			return boolVal(mkOr(a.T, b.T))
		}
	}
	if isFloatType(t) {
		fc.usedIntrinsics["float64 arithmetic (uninterpreted)"] = true
		return opaqueVal(app("fop_"+mangle(x.Op.String()), SInt, a.T, b.T), x.Type())
	}
	it, ok := intTypeOf(x.Type())
	if !ok {
		panic(unsupported("binary op on " + x.Type().String()))
	}
	in := ssa.Instruction(x)
	switch x.Op {
	case token.ADD:
		return intVal(wrap(it, mkAdd(a.T, b.T)), x.Type())
	case token.SUB:
		return intVal(wrap(it, mkSub(a.T, b.T)), x.Type())
	case token.MUL:
		return intVal(wrap(it, mkMul(a.T, b.T)), x.Type())
	case token.QUO, token.REM:
		name := fmt.Sprintf("%s.div0#%d", fc.key, fc.ordinals[in])
		fc.oblige(s, name, "safety", nil, "integer division by zero", mkNot(mkEq(b.T, mkI(0))), instrPos(fc, in))
		s.assume(mkNot(mkEq(b.T, mkI(0))))
		var q, r *Term
		if !it.signed {
			q, r = mkDiv(a.T, b.T), mkMod(a.T, b.T)
		} else {
			// Go truncates toward zero
			q = truncDiv(a.T, b.T)
			r = mkSub(a.T, mkMul(b.T, q))
			if !(b.T.isInt()) {
				// nonlinear; keep exact
			}
			q = wrap(it, q) // MinInt / -1
		}
		if x.Op == token.QUO {
			return intVal(q, x.Type())
		}
		return intVal(r, x.Type())
	case token.SHL, token.SHR:
		return fc.shift(s, x, it, a, b)
	case token.AND:
		return intVal(fc.bitAnd(s, it, a.T, b.T), x.Type())
	case token.OR:
		return intVal(fc.bitOr(s, it, a.T, b.T), x.Type())
	case token.XOR:
		return intVal(fc.bitXor(s, it, a.T, b.T), x.Type())
	case token.AND_NOT:
		nb := mkSub(mkInt(it.max()), b.T)
		if it.signed {
			nb = mkSub(mkI(-1), b.T)
		}
		return intVal(fc.bitAnd(s, it, a.T, nb), x.Type())
	}
	panic(unsupported("binary op " + x.Op.String()))
}

// truncDiv is Go's signed division (truncation toward zero) in terms of SMT's Euclidean div.
func truncDiv(a, b *Term) *Term {
	if a.isInt() && b.isInt() && b.Val.Sign() != 0 {
		return mkInt(new(big.Int).Quo(a.Val, b.Val))
	}
	// a >= 0: div a b  (b>0: floor; b<0: SMT div gives a = b*q + r, 0<=r<|b| which is truncation for a>=0)
	// a < 0: -(div (-a) b)
	return mkIte(mkGe(a, mkI(0)), mkDiv(a, b), mkNeg(mkDiv(mkNeg(a), b)))
}

func (fc *FnCtx) shift(s *State, x *ssa.BinOp, it ityp, a, b Val) Val {
	in := ssa.Instruction(x)
	if bt, ok := intTypeOf(x.Y.Type()); ok && bt.signed {
		name := fmt.Sprintf("%s.shift#%d", fc.key, fc.ordinals[in])
		fc.oblige(s, name, "safety", nil, "negative shift count", mkGe(b.T, mkI(0)), instrPos(fc, in))
	}
	if b.T.isInt() && b.T.Val.IsInt64() {
		k := b.T.Val.Int64()
		if k < 0 {
			panic(unsupported("negative constant shift"))
		}
		if k >= int64(it.bits) {
			if x.Op == token.SHR && it.signed {
				return intVal(mkIte(mkLt(a.T, mkI(0)), mkI(-1), mkI(0)), x.Type())
			}
			return intVal(mkI(0), x.Type())
		}
		p := mkInt(pow2(uint(k)))
		if x.Op == token.SHL {
			return intVal(wrap(it, mkMul(a.T, p)), x.Type())
		}
		return intVal(mkDiv(a.T, p), x.Type()) // floor division = arithmetic shift, also for negatives
	}
	// variable shift: p2(k) by case table for k < bits
	p := fc.pow2Term(b.T, it.bits)
	big := mkGe(b.T, mkI(int64(it.bits)))
	if x.Op == token.SHL {
		return intVal(mkIte(big, mkI(0), wrap(it, mkMul(a.T, p))), x.Type())
	}
	over := mkI(0)
	if it.signed {
		over = mkIte(mkLt(a.T, mkI(0)), mkI(-1), mkI(0))
	}
	return intVal(mkIte(big, over, mkDiv(a.T, p)), x.Type())
}

// pow2Term is 2^k for 0 <= k < bits as an ite chain.
func (fc *FnCtx) pow2Term(k *Term, bits uint) *Term {
	t := mkInt(pow2(bits - 1))
	for i := int(bits) - 2; i >= 0; i-- {
		t = mkIte(mkEq(k, mkI(int64(i))), mkInt(pow2(uint(i))), t)
	}
	return t
}

func isPow2Minus1(v *big.Int) (uint, bool) {
	if v.Sign() <= 0 {
		return 0, false
	}
	w := new(big.Int).Add(v, bigOne)
	if w.BitLen()-1 >= 0 && new(big.Int).Lsh(bigOne, uint(w.BitLen()-1)).Cmp(w) == 0 {
		return uint(w.BitLen() - 1), true
	}
	return 0, false
}

func (fc *FnCtx) bitAnd(s *State, it ityp, a, b *Term) *Term {
	if a.isInt() && b.isInt() && a.Val.Sign() >= 0 && b.Val.Sign() >= 0 {
		return mkInt(new(big.Int).And(a.Val, b.Val))
	}
	if a.isInt() {
		a, b = b, a
	}
	if b.isInt() {
		if b.Val.Sign() == 0 {
			return mkI(0)
		}
		if k, ok := isPow2Minus1(b.Val); ok {
			if k >= it.bits && !it.signed {
				return a
			}
			return mkMod(a, mkInt(pow2(k))) // also right for negative a (two's complement)
		}
		// single bit 2^k
		if b.Val.Sign() > 0 && new(big.Int).And(b.Val, new(big.Int).Sub(b.Val, bigOne)).Sign() == 0 {
			k := uint(b.Val.BitLen() - 1)
			return mkMul(mkMod(mkDiv(a, mkInt(pow2(k))), mkI(2)), mkInt(pow2(k)))
		}
	}
	fc.usedIntrinsics["bitwise & (axiomatised: identities with 0 and all-ones, bounds)"] = true
	r := app("band", SInt, a, b)
	if !it.signed {
		ones := mkInt(it.max())
		s.assume(mkAnd(mkLe(mkI(0), r), mkLe(r, a), mkLe(r, b),
			mkImp(mkEq(a, mkI(0)), mkEq(r, mkI(0))), mkImp(mkEq(b, mkI(0)), mkEq(r, mkI(0))),
			mkImp(mkEq(a, ones), mkEq(r, b)), mkImp(mkEq(b, ones), mkEq(r, a)),
			mkImp(mkEq(a, b), mkEq(r, a))))
	} else {
		s.assume(mkAnd(rangeOf(it, r),
			mkImp(mkEq(a, mkI(0)), mkEq(r, mkI(0))), mkImp(mkEq(b, mkI(0)), mkEq(r, mkI(0))),
			mkImp(mkEq(a, mkI(-1)), mkEq(r, b)), mkImp(mkEq(b, mkI(-1)), mkEq(r, a)),
			mkImp(mkAnd(mkGe(a, mkI(0)), mkGe(b, mkI(0))), mkAnd(mkLe(mkI(0), r), mkLe(r, a), mkLe(r, b)))))
	}
	return r
}

func (fc *FnCtx) bitOr(s *State, it ityp, a, b *Term) *Term {
	if a.isInt() && b.isInt() && a.Val.Sign() >= 0 && b.Val.Sign() >= 0 {
		return mkInt(new(big.Int).Or(a.Val, b.Val))
	}
	if a.isInt() && a.Val.Sign() == 0 {
		return b
	}
	if b.isInt() && b.Val.Sign() == 0 {
		return a
	}
	fc.usedIntrinsics["bitwise | (axiomatised: identity with 0, disjoint bit fields add, bounds)"] = true
	r := app("bor", SInt, a, b)
	cs := []*Term{mkImp(mkEq(a, mkI(0)), mkEq(r, b)), mkImp(mkEq(b, mkI(0)), mkEq(r, a)), mkImp(mkEq(a, b), mkEq(r, a))}
	if !it.signed {
		cs = append(cs, mkLe(a, r), mkLe(b, r), mkLe(r, mkAdd(a, b)), mkLe(r, mkInt(it.max())))
		// disjoint bit fields: a multiple of 2^k and b below 2^k (either order)
		for _, k := range []uint{1, 2, 3, 4, 5, 6, 7, 8, 16, 32} {
			if k >= it.bits {
				continue
			}
			p := mkInt(pow2(k))
			cs = append(cs, mkImp(mkAnd(mkEq(mkMod(a, p), mkI(0)), mkLt(b, p), mkGe(b, mkI(0))), mkEq(r, mkAdd(a, b))))
			cs = append(cs, mkImp(mkAnd(mkEq(mkMod(b, p), mkI(0)), mkLt(a, p), mkGe(a, mkI(0))), mkEq(r, mkAdd(a, b))))
		}
	} else {
		cs = append(cs, rangeOf(it, r))
	}
	s.assume(mkAnd(cs...))
	return r
}

func (fc *FnCtx) bitXor(s *State, it ityp, a, b *Term) *Term {
	if a.isInt() && b.isInt() && a.Val.Sign() >= 0 && b.Val.Sign() >= 0 {
		return mkInt(new(big.Int).Xor(a.Val, b.Val))
	}
	fc.usedIntrinsics["bitwise ^ (uninterpreted, bounds only)"] = true
	r := app("bxor", SInt, a, b)
	s.assume(mkAnd(rangeOf(it, r), mkImp(mkEq(a, b), mkEq(r, mkI(0))), mkImp(mkEq(a, mkI(0)), mkEq(r, b)), mkImp(mkEq(b, mkI(0)), mkEq(r, a))))
	return r
}

func (fc *FnCtx) convert(s *State, x *ssa.Convert) Val {
	v := fc.val(s, x.X)
	from, to := x.X.Type(), x.Type()
	if tt, ok := intTypeOf(to); ok {
		if _, ok2 := intTypeOf(from); ok2 {
			return intVal(wrap(tt, v.T), to)
		}
		if isFloatType(from) {
			fc.usedIntrinsics["float64 -> integer conversion (uninterpreted result in the type's range)"] = true
			r := intVal(app("f2i_"+mangle(to.String()), SInt, v.T), to)
			s.assume(fc.typeAssume(r, nil, nil))
			return r
		}
	}
	if isFloatType(to) {
		fc.usedIntrinsics["integer -> float64 conversion (uninterpreted)"] = true
		return opaqueVal(app("i2f", SInt, v.T), to)
	}
	if isStringType(to) {
		// string(bytes): opaque string whose identity is a function of the slice identity
		if v.K == VSlice {
			return Val{K: VOpaque, T: fc.fresh("str", SInt), Typ: to}
		}
		return Val{K: VOpaque, T: fc.fresh("str", SInt), Typ: to}
	}
	if _, ok := to.Underlying().(*types.Slice); ok && isStringType(from) {
		// []byte(string): fresh array with unknown contents
		arr := fc.allocArray(s)
		ln := fc.fresh("len", SInt)
		s.assume(mkAnd(mkLe(mkI(0), ln), mkLe(ln, mkInt(pow2(48)))))
		s.heap["Mem"] = mkStore(fc.heapCur(s, "Mem", SMem), arr, fc.fresh("bytes", SArr))
		return sliceVal(arr, mkI(0), ln, ln, to)
	}
	panic(unsupported(fmt.Sprintf("conversion %s -> %s", from, to)))
}

func (fc *FnCtx) sliceOp(s *State, x *ssa.Slice) Val {
	base := fc.val(s, x.X)
	in := ssa.Instruction(x)
	if base.K != VSlice {
		if isStringType(x.X.Type()) {
			return Val{K: VOpaque, T: fc.fresh("substr", SInt), Typ: x.Type()}
		}
		panic(unsupported("slice of non-slice"))
	}
	lo := mkI(0)
	if x.Low != nil {
		lo = fc.val(s, x.Low).T
	}
	hi := base.Len
	if x.High != nil {
		hi = fc.val(s, x.High).T
	}
	mx := base.Cap
	if x.Max != nil {
		mx = fc.val(s, x.Max).T
	}
	g := mkAnd(mkLe(mkI(0), lo), mkLe(lo, hi), mkLe(hi, mx), mkLe(mx, base.Cap))
	name := fmt.Sprintf("%s.slice#%d", fc.key, fc.ordinals[in])
	fc.oblige(s, name, "safety", nil, fmt.Sprintf("slice bounds of %s", x.X.Name()), g, instrPos(fc, in))
	s.assume(g)
	return sliceVal(base.Arr, mkAdd(base.Off, lo), mkSub(hi, lo), mkSub(mx, lo), x.Type())
}

func (fc *FnCtx) makeInterface(s *State, x *ssa.MakeInterface) Val {
	v := fc.val(s, x.X)
	tn := typeName(x.X.Type())
	r := Val{K: VOpaque, T: fc.fresh("iface", SInt), Typ: x.Type(), Dyn: tn}
	s.assume(mkLt(mkI(0), r.T))
	s.assume(mkEq(app("dyntype", SInt, r.T), mkI(fc.eng.typeCode(tn))))
	if v.K == VFieldPtr {
		// pointer-to-field wrapped in an interface (errors.As target): keep the pointer
		pv := v
		r.Elems = []Val{pv}
	}
	if v.K == VOpaque && isStringType(x.X.Type()) {
		r.Dyn = "string"
	}
	return r
}
