package main

// Query construction (quantifier-free after skolemisation / instantiation) and solver racing.

import (
	"math/big"
	"runtime"
	"bytes"
	"context"
	"fmt"
	"os"
	"os/exec"
	"path/filepath"
	"sort"
	"strconv"
	"strings"
	"sync"
	"sync/atomic"
	"time"
)

var smtBuiltin = map[string]bool{"+": true, "-": true, "*": true, "div": true, "mod": true, "not": true, "and": true, "or": true,
	"=>": true, "ite": true, "=": true, "<": true, "<=": true, ">": true, ">=": true, "select": true, "store": true,
	"const": true, "int": true, "true": true, "false": true, "K0": true, "KF": true, "forall": true, "distinct": true}

type schema struct {
	vars []string
	body *Term
}

type Query struct {
	Hyps    []*Term
	Schemas []schema
	Notes   []string
	GoalHyps []*Term // the hypotheses that come from the (negated) goal
	GoalOnly bool    // instantiate schemas only at index terms reachable from the goal
	Frames   *frameReg
}

type quantErr string

func (q quantErr) Error() string { return string(q) }

func hasForall(t *Term) bool {
	found := false
	walk(t, func(u *Term) bool {
		if u.Op == "forall" {
			found = true
		}
		return !found
	})
	return found
}

// strip removes quantifiers.  pos is the polarity of t in a formula that is ASSUMED.
// Foralls in positive positions become universal variables (collected in univ);
// foralls in negative positions become skolem constants (they keep their unique name).
func strip(t *Term, pos bool, univ *[]string, underUniv bool) *Term {
	if !hasForall(t) {
		return t
	}
	switch t.Op {
	case "forall":
		if pos {
			*univ = append(*univ, t.Name)
			return strip(t.Args[0], pos, univ, true)
		}
		if underUniv {
			panic(quantErr("existential under a universal quantifier"))
		}
		return strip(t.Args[0], pos, univ, underUniv)
	case "and", "or":
		args := make([]*Term, len(t.Args))
		for i, a := range t.Args {
			args[i] = strip(a, pos, univ, underUniv)
		}
		return reapply(t.Op, SBool, args)
	case "not":
		return mkNot(strip(t.Args[0], !pos, univ, underUniv))
	case "=>":
		return mkImp(strip(t.Args[0], !pos, univ, underUniv), strip(t.Args[1], pos, univ, underUniv))
	case "ite":
		if hasForall(t.Args[0]) {
			panic(quantErr("quantifier in an if-condition"))
		}
		return mkIte(t.Args[0], strip(t.Args[1], pos, univ, underUniv), strip(t.Args[2], pos, univ, underUniv))
	case "=":
		// iff over formulas with quantifiers: split into two implications
		a, b := t.Args[0], t.Args[1]
		if a.Sort == SBool {
			return mkAnd(strip(mkImp(a, b), pos, univ, underUniv), strip(mkImp(b, a), pos, univ, underUniv))
		}
	}
	panic(quantErr("quantifier in unsupported position under " + t.Op))
}

// buildQuery turns hypotheses and a goal into a quantifier-free query.
// heavyTerm reports whether t mentions the ghost value functions (V, P, p10) or a
// product of two non-constant terms.
func heavyTerm(t *Term) bool {
	heavy := false
	walk(t, func(u *Term) bool {
		if heavy {
			return false
		}
		switch u.Op {
		case "V", "P", "p10", "V2", "P2":
			heavy = true
		case "*":
			n := 0
			for _, a := range u.Args {
				if !a.isInt() {
					n++
				}
			}
			if n >= 2 {
				heavy = true
			}
		}
		return !heavy
	})
	return heavy
}

// buildQuery assembles hypotheses and negated goal.  With light set, hypotheses that
// mention the value functions or nonlinear products are dropped (sound: fewer
// hypotheses); frame and scalar goals rarely need them and the query shrinks a lot.
func buildQuery(hyps []*Term, goal *Term, light bool) (q *Query, err error) {
	defer func() {
		if r := recover(); r != nil {
			if qe, ok := r.(quantErr); ok {
				err = qe
				return
			}
			panic(r)
		}
	}()
	q = &Query{}
	// move antecedents of the goal to the hypotheses; the negated goal is one more hypothesis
	nOwn := len(hyps)
	for goal.Op == "=>" {
		hyps = append(hyps[:len(hyps):len(hyps)], goal.Args[0])
		goal = goal.Args[1]
	}
	hyps = append(hyps[:len(hyps):len(hyps)], mkNot(goal))
	var flat []*Term
	var flatten func(t *Term)
	flatten = func(t *Term) {
		if t.Op == "and" {
			for _, a := range t.Args {
				flatten(a)
			}
			return
		}
		// A => (B and C)  ~>  (A => B), (A => C)   (only worth it when a quantifier is inside)
		if t.Op == "=>" && t.Args[1].Op == "and" && hasForall(t.Args[1]) {
			for _, a := range t.Args[1].Args {
				flatten(mkImp(t.Args[0], a))
			}
			return
		}
		flat = append(flat, t)
	}
	goalFrom := -1
	for i, h := range hyps {
		n0 := len(flat)
		if i == nOwn {
			goalFrom = n0
		}
		flatten(h)
		if light && i < nOwn {
			kept := flat[:n0]
			for _, t := range flat[n0:] {
				if !heavyTerm(t) {
					kept = append(kept, t)
				}
			}
			flat = kept
		}
	}
	for fi, h := range flat {
		var univ []string
		b := strip(h, true, &univ, false)
		if goalFrom >= 0 && fi >= goalFrom {
			q.GoalHyps = append(q.GoalHyps, b)
		}
		if len(univ) == 0 {
			q.Hyps = append(q.Hyps, b)
		} else {
			q.Schemas = append(q.Schemas, schema{univ, b})
			// one instance at fresh constants keeps the quantifier-free content of the formula
			m := map[string]*Term{}
			for _, v := range univ {
				m[v] = mkConst("?d"+v[1:], SInt)
			}
			q.Hyps = append(q.Hyps, subst(b, m))
		}
	}
	return q, nil
}

// isWordArray tells word storage (rows of Mem, fresh arrays) from the per-field heaps
// H_<Type>_<field>, which are indexed by object addresses and never quantified over.
func isWordArray(a *Term) bool {
	for {
		switch a.Op {
		case "store":
			a = a.Args[0]
		case "ite":
			a = a.Args[1]
		case "const":
			return !strings.HasPrefix(a.Name, "H_")
		default:
			return true
		}
	}
}

// arrayFamily names the slice-backing array a word-array term is a version of: the row
// `Mem[arr]`, stores into it, and the fresh arrays introduced by a frame havoc of it all
// belong to family arr.  "" = unknown (matches every family).
func arrayFamily(a *Term, fr *frameReg) string {
	for depth := 0; depth < 64; depth++ {
		switch a.Op {
		case "store":
			a = a.Args[0]
		case "ite":
			l, r := arrayFamily(a.Args[1], fr), arrayFamily(a.Args[2], fr)
			if l == r {
				return l
			}
			return ""
		case "select":
			if a.Args[0].Sort == SMem {
				return a.Args[1].String()
			}
			return ""
		case "const":
			if fr == nil {
				return ""
			}
			fr.mu.Lock()
			fp, ok := fr.pairs[a.Name]
			fr.mu.Unlock()
			if !ok {
				return ""
			}
			if fp.arr != nil {
				return fp.arr.String()
			}
			a = fp.before
		default:
			return ""
		}
	}
	return ""
}

// freshVsOther: one family is an array allocated by this function (constant arr_<n>), the
// other one a different allocation or a term over the entry state only (parameters v_*, entry
// heaps H_*): they denote different arrays.
func freshVsOther(a, b string) bool {
	fresh := func(s string) bool {
		if !strings.HasPrefix(s, "arr_") {
			return false
		}
		for _, c := range s[4:] {
			if c < '0' || c > '9' {
				return false
			}
		}
		return len(s) > 4
	}
	entry := func(s string) bool {
		// every identifier in the rendered term is a parameter or an entry heap
		for _, f := range strings.FieldsFunc(s, func(r rune) bool { return r == '(' || r == ')' || r == ' ' }) {
			if f == "" || f == "select" || f == "+" || f == "-" || f == "*" || (f[0] >= '0' && f[0] <= '9') {
				continue
			}
			if !strings.HasPrefix(f, "v_") && !strings.HasPrefix(f, "H_") {
				return false
			}
		}
		return true
	}
	if fresh(a) && fresh(b) {
		return true
	}
	if a == "0" || b == "0" {
		return true // array 0 backs nil slices only (length 0): no access to it is ever live
	}
	return (fresh(a) && entry(b)) || (fresh(b) && entry(a))
}

type candTerm struct {
	t    *Term
	fam  string
	coef *big.Int // patterns only: idx = coef*v + t (nil = 1)
}

// exactQuot returns t/c when every coefficient of the linear form of t is divisible by c.
func exactQuot(t *Term, c *big.Int) *Term {
	l := newLin()
	l.add(t, bigOne)
	r := new(big.Int)
	if r.Mod(l.konst, c); r.Sign() != 0 {
		return nil
	}
	for _, k := range l.keys {
		if r.Mod(l.coef[k], c); r.Sign() != 0 {
			return nil
		}
	}
	l.konst.Quo(l.konst, c)
	for _, k := range l.keys {
		l.coef[k].Quo(l.coef[k], c)
	}
	return l.term()
}

// indexTerms collects candidate instantiation terms, each with the family of the array it
// indexes.
func indexTerms(ts []*Term, bound map[string]bool, fr *frameReg) []candTerm {
	seen := map[string]bool{}
	var out []candTerm
	add := func(t *Term, fam string) {
		if t.Sort != SInt {
			return
		}
		ok := true
		walk(t, func(u *Term) bool {
			if u.Op == "const" && bound[u.Name] {
				ok = false
			}
			return ok
		})
		if !ok {
			return
		}
		k := fam + "|" + t.String()
		if !seen[k] {
			seen[k] = true
			out = append(out, candTerm{t, fam, nil})
		}
	}
	for _, t := range ts {
		walk(t, func(u *Term) bool {
			if u.Op == "select" && u.Args[0].Sort != SMem && isWordArray(u.Args[0]) {
				if os.Getenv("DVC_FAMDEBUG") == "2" {
					as := u.Args[0].String()
					if len(as) > 80 {
						as = as[:80]
					}
					fmt.Fprintf(os.Stderr, "  idx %s of array %s (op %s) -> fam %q\n", u.Args[1], as, u.Args[0].Op, arrayFamily(u.Args[0], fr))
				}
				add(u.Args[1], arrayFamily(u.Args[0], fr))
			}
			if u.Op == "V" || u.Op == "V2" {
				fam := arrayFamily(u.Args[0], fr)
				add(u.Args[1], fam)
				add(mkSub(u.Args[2], mkI(1)), fam)
			}
			return true
		})
	}
	return out
}

// patternOffsets finds, for bound variable v, the index patterns (v + off) used in the schema
// body, each with the family of the indexed array.
func patternOffsets(body *Term, v string, fr *frameReg) []candTerm {
	seen := map[string]bool{}
	var offs []candTerm
	walk(body, func(u *Term) bool {
		if u.Op == "select" && u.Args[0].Sort != SMem {
			idx := u.Args[1]
			// idx = v + off  =>  off = idx - v
			l := newLin()
			l.add(idx, bigOne)
			k := v
			if c, ok := l.coef[k]; ok && c.Sign() != 0 {
				// idx = c*v + off (strided accesses such as buf[n - 8*k - 1] have c != 1)
				off := mkSub(idx, mkMul(mkConst(v, SInt), mkInt(c)))
				if !strings.Contains(off.String(), v) {
					fam := arrayFamily(u.Args[0], fr)
					key := fam + "|" + c.String() + "|" + off.String()
					if !seen[key] {
						seen[key] = true
						var cf *big.Int
						if c.Cmp(bigOne) != 0 {
							cf = new(big.Int).Set(c)
						}
						offs = append(offs, candTerm{off, fam, cf})
					}
				}
			}
		}
		return true
	})
	if len(offs) == 0 {
		offs = append(offs, candTerm{mkI(0), "", nil})
	}
	return offs
}

var maxInstPerSchema = envInt("DVC_MAXINST", 60)

func instantiate(q *Query) (insts []*Term) {
	bound := map[string]bool{}
	for _, s := range q.Schemas {
		for _, v := range s.vars {
			bound[v] = true
		}
	}
	ground := append([]*Term(nil), q.Hyps...)
	if q.GoalOnly {
		ground = append([]*Term(nil), q.GoalHyps...)
	}
	// arrays stated to be different by a hypothesis `a != b`
	distinct := map[string]bool{}
	for _, h := range q.Hyps {
		if h.Op == "not" && len(h.Args) == 1 && h.Args[0].Op == "=" && len(h.Args[0].Args) == 2 {
			a, b := h.Args[0].Args[0].String(), h.Args[0].Args[1].String()
			distinct[a+"|"+b], distinct[b+"|"+a] = true, true
		}
	}
	done := map[string]bool{}
	for round := 0; round < 2; round++ {
		var all []*Term
		all = append(all, ground...)
		all = append(all, insts...)
		if !q.GoalOnly {
			for _, s := range q.Schemas {
				all = append(all, s.body)
			}
		}
		cands := indexTerms(all, bound, q.Frames)
		var added []*Term
		for si, s := range q.Schemas {
			// candidate values per variable
			per := make([][]*Term, len(s.vars))
			for vi, v := range s.vars {
				seen := map[string]bool{}
				for _, off := range patternOffsets(s.body, v, q.Frames) {
					if os.Getenv("DVC_FAMDEBUG") != "" {
						fmt.Fprintf(os.Stderr, "schema %d var %s pattern off=%s fam=%q coef=%v\n", si, v, off.t, off.fam, off.coef)
						for _, c := range cands {
							fmt.Fprintf(os.Stderr, "    cand %s fam=%q\n", c.t, c.fam)
						}
					}
					for _, c := range cands {
						if off.fam != "" && c.fam != "" && off.fam != c.fam && (distinct[off.fam+"|"+c.fam] || freshVsOther(off.fam, c.fam)) {
							continue // an index into an array known to be a different one: not a useful instance
						}
						t := mkSub(c.t, off.t)
						if off.coef != nil {
							if t = exactQuot(t, off.coef); t == nil {
								continue
							}
						}
						if !seen[t.String()] {
							seen[t.String()] = true
							per[vi] = append(per[vi], t)
						}
					}
				}
			}
			count := 0
			var rec func(vi int, m map[string]*Term)
			rec = func(vi int, m map[string]*Term) {
				if count >= maxInstPerSchema {
					return
				}
				if vi == len(s.vars) {
					inst := subst(s.body, m)
					key := fmt.Sprintf("%d:%s", si, inst.String())
					if !done[key] && !inst.isTrue() {
						done[key] = true
						added = append(added, inst)
						count++
					}
					return
				}
				for _, c := range per[vi] {
					m[s.vars[vi]] = c
					rec(vi+1, m)
				}
			}
			rec(0, map[string]*Term{})
		}
		if len(added) == 0 {
			break
		}
		insts = append(insts, added...)
	}
	return insts
}

type framePair struct {
	before, lo, hi *Term
	arr            *Term // the backing array this constant is a version of (nil if not recorded)
}

// frameReg is the per-function registry of array constants known to equal an earlier
// array outside a window (fresh names are only unique within one function).
type frameReg struct {
	mu    sync.Mutex
	pairs map[string]framePair
}

func newFrameReg() *frameReg { return &frameReg{pairs: map[string]framePair{}} }

// registerFrame records that array constant nm equals `before` outside [lo,hi).
func (fc *FnCtx) registerFrame(nm *Term, before, lo, hi *Term, arr *Term) {
	fc.frames.mu.Lock()
	fc.frames.pairs[nm.Name] = framePair{before, lo, hi, arr}
	fc.frames.mu.Unlock()
}

// autoAxioms adds instances of the defining equations of V, P, p10 for the terms present.
func autoAxioms(ts []*Term, fr *frameReg) []*Term {
	var out []*Term
	seen := map[string]bool{}
	B := mkInt(specB)
	var queue []*Term
	queue = append(queue, ts...)
	for len(queue) > 0 {
		t := queue[0]
		queue = queue[1:]
		walk(t, func(u *Term) bool {
			k := u.String()
			switch u.Op {
			case "P", "P2":
				if seen[k] {
					return true
				}
				seen[k] = true
				mkPf, B := mkP, B
				if u.Op == "P2" {
					mkPf, B = mkP2, mkInt(two64)
				}
				out = append(out, mkImp(mkGe(u.Args[0], mkI(0)), mkGe(u, mkI(1))))
				out = append(out, mkImp(mkEq(u.Args[0], mkI(0)), mkEq(u, mkI(1))))
				out = append(out, mkImp(mkEq(u.Args[0], mkI(1)), mkEq(u, B)))
				for kk := int64(2); kk <= 4; kk++ {
					out = append(out, mkImp(mkEq(u.Args[0], mkI(kk)), mkEq(u, mkPf(mkI(kk)))))
				}
			case "p10":
				if seen[k] {
					return true
				}
				seen[k] = true
				// small exponents by table
				var cs []*Term
				for i := int64(0); i <= 38; i++ {
					cs = append(cs, mkImp(mkEq(u.Args[0], mkI(i)), mkEq(u, mkP10(mkI(i)))))
				}
				cs = append(cs, mkImp(mkGe(u.Args[0], mkI(0)), mkGe(u, mkI(1))))
				out = append(out, mkAnd(cs...))
			case "V", "V2":
				if seen[k] {
					return true
				}
				seen[k] = true
				mkV, mkP, B := mkV, mkP, B
				if u.Op == "V2" {
					mkV, mkP, B = mkV2, mkP2, mkInt(two64)
				}
				m, lo, hi := u.Args[0], u.Args[1], u.Args[2]
				out = append(out, mkImp(mkLe(hi, lo), mkEq(u, mkI(0))))
				// one word
				out = append(out, mkImp(mkEq(hi, mkAdd(lo, mkI(1))), mkEq(u, mkSelect(m, lo))))
				if m.Op == "const" && fr != nil {
					fr.mu.Lock()
					fp, ok := fr.pairs[m.Name]
					fr.mu.Unlock()
					if ok {
						// lemma V_eq with the frame of m as premise
						before := mkV(fp.before, lo, hi)
						out = append(out, mkImp(mkOr(mkLe(hi, fp.lo), mkGe(lo, fp.hi), mkLe(fp.hi, fp.lo)), mkEq(u, before)))
						queue = append(queue, before)
					}
				}
				if m.Op == "store" {
					j, v, m0 := m.Args[1], m.Args[2], m.Args[0]
					below := mkV(m0, lo, hi)
					ax1 := mkImp(mkOr(mkLt(j, lo), mkGe(j, hi)), mkEq(u, below))
					topLow := mkV(m0, lo, j)
					ax2 := mkImp(mkAnd(mkEq(j, mkSub(hi, mkI(1))), mkLe(lo, j)), mkEq(u, mkAdd(topLow, mkMul(v, mkP(mkSub(j, lo))))))
					// store at the low end (lemma V_low on both arrays)
					rest := mkV(m0, mkAdd(lo, mkI(1)), hi)
					ax3 := mkImp(mkAnd(mkEq(j, lo), mkLt(lo, hi)), mkAnd(
						mkEq(u, mkAdd(v, mkMul(rest, B))),
						mkEq(below, mkAdd(mkSelect(m0, lo), mkMul(rest, B)))))
					out = append(out, ax1, ax2, ax3)
					queue = append(queue, below, topLow, mkP(mkSub(j, lo)), rest)
				}
			}
			return true
		})
	}
	return out
}

// ---------- rendering ----------

type tableDef struct {
	name string
	vals []*Term
}

var (
	tableMu sync.Mutex
	tables  = map[string][]*Term{}
)

func (e *Engine) registerTable(name string, vals []*Term) {
	tableMu.Lock()
	tables[name] = vals
	tableMu.Unlock()
}

var (
	typeCodeMu sync.Mutex
	typeCodes  = map[string]int64{}
)

func (e *Engine) typeCode(name string) int64 {
	typeCodeMu.Lock()
	defer typeCodeMu.Unlock()
	if c, ok := typeCodes[name]; ok {
		return c
	}
	c := int64(len(typeCodes) + 1)
	typeCodes[name] = c
	return c
}

func renderQuery(asserts []*Term, getValues []*Term) string {
	var b bytes.Buffer
	b.WriteString("(set-option :produce-models true)\n(set-logic ALL)\n")
	// uninterpreted functions
	funs := map[string]string{}
	var funNames []string
	all := append(append([]*Term(nil), asserts...), getValues...)
	// count occurrences of every distinct subterm (by pointer-independent text) to share big ones
	count := map[string]int{}
	repr := map[string]*Term{}
	visited := map[*Term]bool{}
	var visit func(t *Term)
	visit = func(t *Term) {
		if !smtBuiltin[t.Op] {
			if _, ok := funs[t.Op]; !ok {
				var as []string
				for _, a := range t.Args {
					as = append(as, a.Sort.String())
				}
				funs[t.Op] = fmt.Sprintf("(declare-fun %s (%s) %s)", t.Op, strings.Join(as, " "), t.Sort.String())
				funNames = append(funNames, t.Op)
			}
		}
		if len(t.Args) == 0 {
			return
		}
		k := t.String()
		count[k]++
		if visited[t] {
			return
		}
		visited[t] = true
		if _, ok := repr[k]; !ok {
			repr[k] = t
		}
		if count[k] > 1 {
			return // children already counted through the first occurrence
		}
		for _, a := range t.Args {
			visit(a)
		}
	}
	for _, t := range all {
		visit(t)
	}
	sort.Strings(funNames)
	for _, n := range funNames {
		b.WriteString(funs[n])
		b.WriteByte('\n')
	}
	consts := freeConsts(all)
	tableMu.Lock()
	for _, c := range consts {
		if vals, ok := tables[c.Name]; ok {
			arr := "((as const (Array Int Int)) 0)"
			for i, v := range vals {
				arr = fmt.Sprintf("(store %s %d %s)", arr, i, v.String())
			}
			fmt.Fprintf(&b, "(define-fun %s () (Array Int Int) %s)\n", c.Name, arr)
			continue
		}
		fmt.Fprintf(&b, "(declare-const %s %s)\n", smtName(c.Name), c.Sort.String())
	}
	tableMu.Unlock()
	// shared subterms become definitions (the text is a DAG, not a tree)
	names := map[string]string{}
	nshared := 0
	var emit func(t *Term) string
	emit = func(t *Term) string {
		if len(t.Args) == 0 {
			return smtText(t)
		}
		k := t.String()
		if n, ok := names[k]; ok {
			return n
		}
		var sb strings.Builder
		switch t.Op {
		case "K0", "KF":
			return t.String()
		}
		sb.WriteByte('(')
		sb.WriteString(t.Op)
		for _, a := range t.Args {
			sb.WriteByte(' ')
			sb.WriteString(emit(a))
		}
		sb.WriteByte(')')
		txt := sb.String()
		if count[k] > 1 && len(k) > 120 {
			nshared++
			n := fmt.Sprintf("sh!%d", nshared)
			fmt.Fprintf(&b, "(define-fun %s () %s %s)\n", n, t.Sort.String(), txt)
			names[k] = n
			return n
		}
		return txt
	}
	var lines []string
	for _, a := range asserts {
		lines = append(lines, fmt.Sprintf("(assert %s)\n", emit(a)))
	}
	var gv []string
	for _, v := range getValues {
		gv = append(gv, emit(v))
	}
	for _, l := range lines {
		b.WriteString(l)
	}
	b.WriteString("(check-sat)\n")
	if len(gv) > 0 {
		b.WriteString("(get-value (" + strings.Join(gv, " ") + "))\n")
	}
	return b.String()
}

func smtName(n string) string {
	if strings.HasPrefix(n, "?") {
		return "sk_" + n[1:]
	}
	return n
}

func smtText(t *Term) string {
	s := t.String()
	if strings.Contains(s, "?") {
		s = strings.ReplaceAll(s, "?", "sk_")
	}
	return s
}

// ---------- solvers ----------

type solverSpec struct {
	name string
	args func(timeoutS int, file string) []string
}

var solvers = []solverSpec{
	{"z3-5.1", func(t int, f string) []string { return []string{"z3-new", fmt.Sprintf("-T:%d", t), f} }},
	{"z3-4.8", func(t int, f string) []string { return []string{"z3", fmt.Sprintf("-T:%d", t), f} }},
	{"cvc5", func(t int, f string) []string {
		return []string{"cvc5", fmt.Sprintf("--tlimit=%d", t*1000), "--produce-models", f}
	}},
}

type solveResult struct {
	Result string
	Solver string
	TimeS  float64
	Output string
}

var solverCPU int64 // microseconds, summed

// solverSlots bounds the number of solver processes running at once (the three-way race
// would otherwise oversubscribe the machine and turn 1 s queries into timeouts).
var solverSlots = make(chan struct{}, runtime.NumCPU())

func runSolver(ctx context.Context, sp solverSpec, timeoutS int, file string) solveResult {
	select {
	case solverSlots <- struct{}{}:
	case <-ctx.Done():
		return solveResult{"unknown", sp.name, 0, "cancelled"}
	}
	defer func() { <-solverSlots }()
	if ctx.Err() != nil {
		return solveResult{"unknown", sp.name, 0, "cancelled"}
	}
	t0 := time.Now()
	args := sp.args(timeoutS, file)
	cctx, cancel := context.WithTimeout(ctx, time.Duration(timeoutS+2)*time.Second)
	defer cancel()
	cmd := exec.CommandContext(cctx, args[0], args[1:]...)
	out, _ := cmd.CombinedOutput()
	dt := time.Since(t0).Seconds()
	atomic.AddInt64(&solverCPU, int64(dt*1e6))
	first := strings.TrimSpace(strings.SplitN(string(out), "\n", 2)[0])
	res := "unknown"
	switch first {
	case "unsat":
		res = "unsat"
	case "sat":
		res = "sat"
	case "timeout":
		res = "timeout"
	case "unknown":
		res = "unknown"
	default:
		if strings.Contains(string(out), "timeout") || cctx.Err() != nil {
			res = "timeout"
		} else if strings.Contains(first, "error") || strings.Contains(first, "Error") {
			res = "error"
		}
	}
	return solveResult{res, sp.name, dt, string(out)}
}

// solve races the solvers: a quick attempt on z3-5.1 first, then all three in parallel.
func solve(workdir string, id int, text string, quickS, fullS int) solveResult {
	file := filepath.Join(workdir, fmt.Sprintf("q%06d.smt2", id))
	if err := os.WriteFile(file, []byte(text), 0o644); err != nil {
		return solveResult{Result: "error", Output: err.Error()}
	}
	defer os.Remove(file)
	r := runSolver(context.Background(), solvers[0], quickS, file)
	if r.Result == "unsat" || r.Result == "sat" {
		return r
	}
	ctx, cancel := context.WithCancel(context.Background())
	defer cancel()
	ch := make(chan solveResult, len(solvers))
	for _, sp := range solvers {
		sp := sp
		go func() { ch <- runSolver(ctx, sp, fullS, file) }()
	}
	var last solveResult = r
	total := r.TimeS
	for range solvers {
		x := <-ch
		if x.Result == "unsat" || x.Result == "sat" {
			x.TimeS += total
			return x
		}
		if x.Result == "error" && last.Result != "error" {
			last = x
		} else if last.Result == "" || last.Result == "unknown" {
			last = x
		}
	}
	if last.Result == "" {
		last.Result = "unknown"
	}
	return last
}

// ---------- discharging ----------

type Discharger struct {
	workdir string
	quickS  int
	fullS   int
	nq      int64
	keep    bool
}

func newDischarger(tier string) *Discharger {
	wd := filepath.Join("/verif/.work", fmt.Sprintf("%d", os.Getpid()))
	os.MkdirAll(wd, 0o755)
	d := &Discharger{workdir: wd, quickS: 4, fullS: envInt("DVC_FULLS", 60)}
	if tier == "thorough" {
		d.fullS = 180
	}
	return d
}

// ufBudget: seconds for one attempt with the nonlinear products abstracted (most value-level
// goals are decided this way in a few seconds; under load they need more).
func (d *Discharger) ufBudget() int {
	if b := d.fullS / 2; b > 15 {
		return b
	}
	return 15
}

// modeBudget: seconds for the race on a reduced query (goal-directed instantiation).
func (d *Discharger) modeBudget() int {
	if b := d.fullS / 4; b > 8 {
		return b
	}
	return 8
}

func (d *Discharger) cleanup() { os.RemoveAll(d.workdir) }

func (d *Discharger) prepare(o *Obligation, getValues []*Term) (string, error) {
	t, _, err := d.prepareMode(o, getValues, 0)
	return t, err
}

// prepareMode: 0 = full query; 1 = light (value-level hypotheses dropped, schemas
// instantiated only at index terms of the goal); 2 = medium (all hypotheses, goal-directed
// instantiation).  Modes 1 and 2 only ever remove assertions, so unsat carries over.
// The second result is the same query with nonlinear products abstracted (nlabs.go), or ""
// when the query has none.
func (d *Discharger) prepareMode(o *Obligation, getValues []*Term, mode int) (string, string, error) {
	q, err := buildQuery(o.Hyps, o.Goal, mode == 1)
	if err != nil {
		return "", "", err
	}
	q.GoalOnly = mode != 0
	q.Frames = o.frames
	t0 := time.Now()
	insts := instantiate(q)
	t1 := time.Now()
	var asserts []*Term
	asserts = append(asserts, q.Hyps...)
	asserts = append(asserts, insts...)
	ax := autoAxioms(asserts, o.frames)
	asserts = append(asserts, ax...)
	t2 := time.Now()
	txt := renderQuery(asserts, getValues)
	uf := ""
	if getValues == nil && os.Getenv("DVC_NOUF") == "" {
		if ab, changed := abstractNonlinear(asserts); changed {
			uf = renderQuery(ab, nil)
		}
	}
	if os.Getenv("DVC_PROF") != "" {
		fmt.Fprintf(os.Stderr, "prep %s: hyps=%d schemas=%d insts=%d axioms=%d bytes=%d inst=%.2fs ax=%.2fs render=%.2fs\n", o.Name, len(q.Hyps), len(q.Schemas), len(insts), len(ax), len(txt),
			t1.Sub(t0).Seconds(), t2.Sub(t1).Seconds(), time.Since(t2).Seconds())
	}
	return txt, uf, nil
}

// simplifyDistinct uses the hypotheses of the form `a != b` (a, b symbolic constants, e.g.
// the backing arrays of two slices a precondition keeps apart) to decide every test `a == b`
// inside the other hypotheses and the goal.  Equivalent under the hypotheses; it removes the
// `ite (= x.arr y.arr) ...` alternatives that reads of possibly aliasing slices produce.
func simplifyDistinct(o *Obligation) {
	pairs := map[string]bool{}
	isPair := func(t *Term) bool {
		return t.Op == "=" && len(t.Args) == 2 && t.Args[0].Op == "const" && t.Args[1].Op == "const" && t.Args[0].Sort == SInt
	}
	for _, h := range o.Hyps {
		if h.Op == "not" && len(h.Args) == 1 && isPair(h.Args[0]) {
			a, b := h.Args[0].Args[0].Name, h.Args[0].Args[1].Name
			pairs[a+"|"+b], pairs[b+"|"+a] = true, true
		}
	}
	if len(pairs) == 0 {
		return
	}
	f := func(u *Term) *Term {
		if isPair(u) && pairs[u.Args[0].Name+"|"+u.Args[1].Name] {
			return tFalse
		}
		return nil
	}
	hyps := make([]*Term, 0, len(o.Hyps))
	for _, h := range o.Hyps {
		if h.Op == "not" && len(h.Args) == 1 && isPair(h.Args[0]) {
			hyps = append(hyps, h)
			continue
		}
		hyps = append(hyps, rebuild(h, f))
	}
	o.Hyps = hyps
	o.Goal = rebuild(o.Goal, f)
}

// deriveDistinct decides the tests `A == B` between an array allocated by this function
// (arr_<n>) and a term over the entry state: if the quantifier-free hypotheses already
// refute all of them (one small solver call), they are replaced by false everywhere.  Reads
// of a slice that could alias the fresh array only syntactically lose their `ite`.
var distinctCache sync.Map

func (d *Discharger) deriveDistinct(o *Obligation) {
	type pr struct{ a, b *Term }
	seen := map[string]bool{}
	var cands []pr
	visit := func(t *Term) {
		walk(t, func(u *Term) bool {
			if u.Op == "=" && len(u.Args) == 2 && u.Args[0].Sort == SInt {
				a, b := u.Args[0], u.Args[1]
				if (a.Op == "const" && strings.HasPrefix(a.Name, "arr_")) || (b.Op == "const" && strings.HasPrefix(b.Name, "arr_")) {
					as, bs := a.String(), b.String()
					if !seen[as+"|"+bs] && freshVsOther(as, bs) && as != "0" && bs != "0" {
						seen[as+"|"+bs] = true
						cands = append(cands, pr{a, b})
					}
				}
			}
			return true
		})
	}
	for _, h := range o.Hyps {
		visit(h)
	}
	visit(o.Goal)
	if len(cands) == 0 {
		return
	}
	var small []*Term
	for _, h := range o.Hyps {
		if !hasForall(h) && len(h.String()) < 1500 {
			small = append(small, h)
		}
	}
	var eqs []*Term
	for _, c := range cands {
		eqs = append(eqs, mkEq(c.a, c.b))
	}
	text := renderQuery(append(append([]*Term(nil), small...), mkOr(eqs...)), nil)
	res, ok := distinctCache.Load(text)
	if !ok {
		id := int(atomic.AddInt64(&d.nq, 1))
		file := filepath.Join(d.workdir, fmt.Sprintf("d%06d.smt2", id))
		if os.WriteFile(file, []byte(text), 0o644) != nil {
			return
		}
		r := runSolver(context.Background(), solvers[0], 3, file)
		os.Remove(file)
		res = r.Result
		distinctCache.Store(text, res)
	}
	if res != "unsat" {
		return
	}
	f := func(u *Term) *Term {
		if u.Op == "=" && len(u.Args) == 2 && (seen[u.Args[0].String()+"|"+u.Args[1].String()] || seen[u.Args[1].String()+"|"+u.Args[0].String()]) {
			return tFalse
		}
		return nil
	}
	hyps := make([]*Term, 0, len(o.Hyps))
	for _, h := range o.Hyps {
		hyps = append(hyps, rebuild(h, f))
	}
	o.Hyps = hyps
	o.Goal = rebuild(o.Goal, f)
}

func (d *Discharger) discharge(o *Obligation) {
	if o.Result != "" {
		return
	}
	simplifyDistinct(o)
	d.deriveDistinct(o)
	if o.Kind == "cover" {
		// reachability checks only matter when they come back unsat (vacuity); a model search
		// over nonlinear constraints can be slow, so they get one short attempt
		text, err := d.prepare(o, nil)
		if err != nil {
			o.Result = "unknown"
			return
		}
		id := int(atomic.AddInt64(&d.nq, 1))
		file := filepath.Join(d.workdir, fmt.Sprintf("c%06d.smt2", id))
		os.WriteFile(file, []byte(text), 0o644)
		r := runSolver(context.Background(), solvers[0], 4, file)
		os.Remove(file)
		o.Result, o.Solver, o.TimeS = r.Result, r.Solver, r.TimeS
		return
	}
	tw := time.Now()
	// tryUF: the abstraction of nonlinear products decides most value-level goals at once
	tryUF := func(ut, tag string, budget int) bool {
		if ut == "" {
			return false
		}
		uid := int(atomic.AddInt64(&d.nq, 1))
		file := filepath.Join(d.workdir, fmt.Sprintf("u%06d.smt2", uid))
		if os.WriteFile(file, []byte(ut), 0o644) != nil {
			return false
		}
		defer os.Remove(file)
		ur := runSolver(context.Background(), solvers[0], budget, file)
		if ur.Result == "unsat" {
			o.Result, o.Solver, o.TimeS = "unsat", "z3-5.1 (products abstracted"+tag+")", ur.TimeS
			if d.keep {
				o.Query = ut
			}
			return true
		}
		return false
	}
	// Reduced queries first (they only remove assertions, so unsat carries over): light for
	// scalar/frame goals in large contexts, then goal-directed instantiation; the full
	// query is only built when those do not decide the obligation.
	modes := []int{2}
	if !heavyTerm(o.Goal) && len(o.Hyps) > 40 {
		modes = []int{1, 2}
	}
	var lastReduced string
	for _, mode := range modes {
		lt, lu, err := d.prepareMode(o, nil, mode)
		if err != nil {
			continue
		}
		tag := ", light"
		if mode == 2 {
			tag = ", goal-directed"
			lastReduced = lt
		}
		if tryUF(lu, tag, d.ufBudget()) {
			return
		}
		lid := int(atomic.AddInt64(&d.nq, 1))
		lr := solve(d.workdir, lid, lt, d.quickS, d.modeBudget())
		if lr.Result == "unsat" {
			o.Result, o.Solver, o.TimeS = lr.Result, lr.Solver+" ("+tag[2:]+")", lr.TimeS
			if d.keep {
				o.Query = lt
			}
			return
		}
		if dd := os.Getenv("DVC_LIGHT_DUMP"); dd != "" {
			os.MkdirAll(dd, 0o755)
			os.WriteFile(filepath.Join(dd, fmt.Sprintf("%s_%d.mode%d.smt2", mangle(o.Name), o.PathID, mode)), []byte(lt), 0o644)
			if lu != "" {
				os.WriteFile(filepath.Join(dd, fmt.Sprintf("%s_%d.mode%d.uf.smt2", mangle(o.Name), o.PathID, mode)), []byte(lu), 0o644)
			}
		}
	}
	text, uf, err := d.prepareMode(o, nil, 0)
	if err != nil {
		o.Result = "error"
		o.Solver = err.Error()
		return
	}
	id := int(atomic.AddInt64(&d.nq, 1))
	if len(text) > 2_000_000 {
		o.Result = "error"
		o.Solver = fmt.Sprintf("query too large (%d bytes)", len(text))
		return
	}
	if text != lastReduced {
		if tryUF(uf, "", d.ufBudget()) {
			return
		}
	}
	r := solve(d.workdir, id, text, d.quickS, d.fullS)
	if os.Getenv("DVC_PROF") != "" {
		fmt.Fprintf(os.Stderr, "solve %s: %s %s solver=%.2fs wall=%.2fs\n", o.Name, r.Result, r.Solver, r.TimeS, time.Since(tw).Seconds())
	}
	o.Result, o.Solver, o.TimeS = r.Result, r.Solver, r.TimeS
	if d.keep {
		o.Query = text
	}
	if r.Result != "unsat" {
		o.Query = text
		o.Model = map[string]string{"solver_output": truncate(r.Output, 4000)}
	}
}

func truncate(s string, n int) string {
	if len(s) > n {
		return s[:n] + "..."
	}
	return s
}

func (d *Discharger) dischargeAll(obls []*Obligation, workers int) {
	var wg sync.WaitGroup
	ch := make(chan *Obligation)
	for i := 0; i < workers; i++ {
		wg.Add(1)
		go func() {
			defer wg.Done()
			for o := range ch {
				d.discharge(o)
			}
		}()
	}
	for _, o := range obls {
		ch <- o
	}
	close(ch)
	wg.Wait()
}

func envInt(name string, def int) int {
	if v := os.Getenv(name); v != "" {
		if n, err := strconv.Atoi(v); err == nil {
			return n
		}
	}
	return def
}
