package main

// State merging at the join point of an if-then-else: instead of forking the rest of the
// function once per branch, both branches are run up to their common post-dominator and
// the two states are merged with if-then-else terms.  This keeps the number of paths
// linear in the number of sequential branches.

import (
	"golang.org/x/tools/go/ssa"
)

// postDoms computes the immediate post-dominator of every block (nil = function exit).
func postDoms(fn *ssa.Function) map[*ssa.BasicBlock]*ssa.BasicBlock {
	n := len(fn.Blocks)
	// pdom[b] = set of blocks that post-dominate b (including b); exit is implicit
	full := make([]bool, n)
	for i := range full {
		full[i] = true
	}
	pd := make([][]bool, n)
	isExit := make([]bool, n)
	for i, b := range fn.Blocks {
		if len(b.Succs) == 0 {
			isExit[i] = true
			if _, isPanic := b.Instrs[len(b.Instrs)-1].(*ssa.Panic); isPanic {
				// a panicking block never reaches a join: it must not constrain post-dominance
				pd[i] = append([]bool(nil), full...)
			} else {
				pd[i] = make([]bool, n)
				pd[i][i] = true
			}
		} else {
			pd[i] = append([]bool(nil), full...)
		}
	}
	changed := true
	for changed {
		changed = false
		for i := n - 1; i >= 0; i-- {
			b := fn.Blocks[i]
			if isExit[i] {
				continue
			}
			nw := append([]bool(nil), full...)
			for _, s := range b.Succs {
				for k := 0; k < n; k++ {
					nw[k] = nw[k] && pd[s.Index][k]
				}
			}
			nw[i] = true
			for k := 0; k < n; k++ {
				if nw[k] != pd[i][k] {
					changed = true
				}
			}
			pd[i] = nw
		}
	}
	out := map[*ssa.BasicBlock]*ssa.BasicBlock{}
	for i, b := range fn.Blocks {
		// immediate post-dominator: the strict post-dominator that is post-dominated by all others
		var best *ssa.BasicBlock
		for k := 0; k < n; k++ {
			if k == i || !pd[i][k] {
				continue
			}
			c := fn.Blocks[k]
			// c is a candidate; it is the immediate one if every other strict pdom of b also post-dominates c
			ok := true
			for j := 0; j < n; j++ {
				if j == i || j == k || !pd[i][j] {
					continue
				}
				if !pd[k][j] {
					ok = false
					break
				}
			}
			if ok {
				best = c
				break
			}
		}
		out[b] = best
	}
	return out
}

func (fc *FnCtx) ipdom(fn *ssa.Function, b *ssa.BasicBlock) *ssa.BasicBlock {
	m, ok := fc.pdoms[fn]
	if !ok {
		m = postDoms(fn)
		fc.pdoms[fn] = m
	}
	return m[b]
}

func sameVal(a, b Val) bool {
	if a.K != b.K {
		return false
	}
	switch a.K {
	case VInt, VBool, VPtr, VOpaque:
		return a.T == b.T
	case VSlice:
		return a.Arr == b.Arr && a.Off == b.Off && a.Len == b.Len && a.Cap == b.Cap
	case VCellPtr:
		return a.Cell == b.Cell
	case VFieldPtr:
		return a.Base == b.Base && a.Cell == b.Cell && a.Field == b.Field && a.SName == b.SName
	case VElemPtr:
		return sameVal(*a.Sl, *b.Sl) && a.Idx == b.Idx
	case VGlobPtr:
		return a.Glob == b.Glob
	case VGlobElem:
		return a.Glob == b.Glob && a.Idx == b.Idx
	case VTuple, VStruct:
		if len(a.Elems) != len(b.Elems) {
			return false
		}
		for i := range a.Elems {
			if !sameVal(a.Elems[i], b.Elems[i]) {
				return false
			}
		}
		return true
	case VUnit:
		return true
	}
	return false
}

// iteVal merges two values; ok=false if the kinds cannot be merged.
func iteVal(c *Term, a, b Val) (Val, bool) {
	if sameVal(a, b) {
		return a, true
	}
	if a.K != b.K {
		return Val{}, false
	}
	switch a.K {
	case VInt, VBool, VPtr, VOpaque:
		if a.T == nil || b.T == nil || a.T.Sort != b.T.Sort {
			return Val{}, false
		}
		r := a
		r.T = mkIte(c, a.T, b.T)
		if a.Dyn != b.Dyn {
			r.Dyn = ""
		}
		return r, true
	case VSlice:
		return sliceVal(mkIte(c, a.Arr, b.Arr), mkIte(c, a.Off, b.Off), mkIte(c, a.Len, b.Len), mkIte(c, a.Cap, b.Cap), a.Typ), true
	case VTuple, VStruct:
		if len(a.Elems) != len(b.Elems) {
			return Val{}, false
		}
		r := a
		r.Elems = make([]Val, len(a.Elems))
		for i := range a.Elems {
			v, ok := iteVal(c, a.Elems[i], b.Elems[i])
			if !ok {
				return Val{}, false
			}
			r.Elems[i] = v
		}
		return r, true
	}
	return Val{}, false
}

// mergeStates merges A (condition c) and B (condition not c), both descendants of base.
func (fc *FnCtx) mergeStates(base *State, c *Term, A, B *State) *State {
	if len(A.defers) != len(B.defers) || A.depth != B.depth || A.ghostOther != B.ghostOther || A.recovered != B.recovered ||
		(A.panicVal == nil) != (B.panicVal == nil) || len(A.frames) != len(B.frames) {
		return nil
	}
	n0 := len(base.pc)
	if len(A.pc) < n0 || len(B.pc) < n0 {
		return nil
	}
	m := A.clone()
	m.pc = append([]*Term(nil), base.pc...)
	for _, t := range A.pc[n0:] {
		if t != c {
			m.pc = append(m.pc, mkImp(c, t))
		}
	}
	nc := mkNot(c)
	for _, t := range B.pc[n0:] {
		if t != nc {
			m.pc = append(m.pc, mkImp(nc, t))
		}
	}
	// cells
	for cell, vb := range B.cells {
		va, ok := A.cells[cell]
		if !ok {
			m.cells[cell] = vb
			continue
		}
		v, ok := iteVal(c, va, vb)
		if !ok {
			return nil
		}
		m.cells[cell] = v
	}
	for a, cl := range B.allocs {
		if _, ok := m.allocs[a]; !ok {
			m.allocs[a] = cl
		}
	}
	// registers defined in only one branch are dead after the join; phis were evaluated per branch
	for r, vb := range B.regs {
		va, ok := A.regs[r]
		if !ok {
			m.regs[r] = vb
			continue
		}
		if !sameVal(va, vb) {
			v, ok := iteVal(c, va, vb)
			if !ok {
				delete(m.regs, r)
				continue
			}
			m.regs[r] = v
		}
	}
	// heap
	for k, hb := range B.heap {
		ha, ok := A.heap[k]
		if !ok {
			ha = fc.heapIn(A.heap, k, hb.Sort)
		}
		if ha != hb {
			m.heap[k] = mkIte(c, ha, hb)
		}
	}
	for k, ha := range A.heap {
		if _, ok := B.heap[k]; !ok {
			hb := fc.heapIn(B.heap, k, ha.Sort)
			if ha != hb {
				m.heap[k] = mkIte(c, ha, hb)
			}
		}
	}
	for b := range B.entered {
		m.entered[b] = true
	}
	// ghosts
	if len(A.ghosts) > 0 || len(B.ghosts) > 0 {
		if m.ghosts == nil {
			m.ghosts = map[string]*Term{}
		}
		for g, tb := range B.ghosts {
			if ta, ok := A.ghosts[g]; ok {
				m.ghosts[g] = mkIte(c, ta, tb)
			} else {
				m.ghosts[g] = tb
			}
		}
	}
	m.trace = append(append([]string(nil), base.trace...), "merge")
	m.caseLit = nil
	return m
}

// execIfMerged runs both branches of an If up to the join block and continues once.
// It returns false if merging is not applicable (the caller then forks as usual).
func (fc *FnCtx) execIfMerged(s *State, fn *ssa.Function, b *ssa.BasicBlock, cond *Term, k retK) bool {
	if fc.noMerge {
		return false
	}
	J := fc.ipdom(fn, b)
	if J == nil {
		return false
	}
	if fn == fc.fn {
		if _, isLoop := fc.loops[J]; isLoop {
			return false
		}
		// do not merge across loop boundaries
		for h, li := range fc.loops {
			_ = h
			if li.blocks[b] != li.blocks[J] {
				return false
			}
		}
	}
	var endsA, endsB []*State
	collect := func(dst *[]*State) func(*State) {
		return func(st *State) {
			// evaluate the phis of J for this incoming edge (unless an inner merge at the same join already did)
			for _, in := range J.Instrs {
				if st.phiDone == J {
					break
				}
				phi, ok := in.(*ssa.Phi)
				if !ok {
					break
				}
				for i, p := range J.Preds {
					if p == st.prev {
						st.regs[phi] = fc.val(st, phi.Edges[i])
						break
					}
				}
			}
			st.phiDone = J
			*dst = append(*dst, st)
		}
	}
	sA := s.clone()
	sA.assume(cond)
	sA.stopAt = append(sA.stopAt[:len(sA.stopAt):len(sA.stopAt)], stopPoint{J, collect(&endsA)})
	sB := s.clone()
	sB.assume(mkNot(cond))
	sB.stopAt = append(sB.stopAt[:len(sB.stopAt):len(sB.stopAt)], stopPoint{J, collect(&endsB)})
	fc.jump(sA, fn, b, b.Succs[0], k)
	fc.jump(sB, fn, b, b.Succs[1], k)
	pop := func(st *State) { st.stopAt = st.stopAt[:len(st.stopAt)-1] }
	var next []*State
	switch {
	case len(endsA) == 1 && len(endsB) == 1:
		pop(endsA[0])
		pop(endsB[0])
		if m := fc.mergeStates(s, cond, endsA[0], endsB[0]); m != nil {
			m.stopAt = endsA[0].stopAt
			m.phiDone = J
			next = []*State{m}
		} else {
			next = []*State{endsA[0], endsB[0]}
			endsA[0].phiDone, endsB[0].phiDone = J, J
		}
	default:
		for _, st := range append(endsA, endsB...) {
			pop(st)
			st.phiDone = J
			next = append(next, st)
		}
	}
	for _, st := range next {
		// continue at J (honouring an outer stop point)
		if len(st.stopAt) > 0 && st.stopAt[len(st.stopAt)-1].b == J {
			st.stopAt[len(st.stopAt)-1].f(st)
			continue
		}
		fc.execBlock(st, fn, J, 0, k)
	}
	return true
}
