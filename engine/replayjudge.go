package main

import (
	"fmt"
	"go/types"
	"regexp"
	"strings"
)

var (
	reObj = regexp.MustCompile(`^DVC object (\w+) exp=(-?\d+) prec=(\d+) mode=(\d+) acc=(-?\d+) form=(\d+) neg=(\w+) mant=(\w+) (\d+) len=(\d+) cap=(\d+) words=\[(.*)\]$`)
	reArr = regexp.MustCompile(`^DVC array (\w+) \[(.*)\]$`)
	reRes = regexp.MustCompile(`^DVC result (\d+) (\w+) (.*)$`)
	reSl  = regexp.MustCompile(`^(\w+) (\d+) len=(\d+) cap=(\d+) words=\[(.*)\]$`)
)

func litArray(words []string) *Term {
	t := mkK0()
	for i, w := range words {
		v, ok := newBig(0).SetString(w, 10)
		if !ok {
			continue
		}
		t = mkStore(t, mkI(int64(i)), mkInt(v))
	}
	return t
}

func bigLit(s string) *Term {
	v, ok := newBig(0).SetString(s, 10)
	if !ok {
		return mkI(0)
	}
	return mkInt(v)
}

// judgeReplay evaluates the function's contract on the observed run.
func (e *Engine) judgeReplay(o *Obligation, m map[string]string, st *rpState, lines []string, r *ReplayResult) {
	fn := e.funcs[o.Func]
	ct := e.cs.Funcs[o.Func]
	fc := e.newFnCtx(fn, ct)
	fc.structTypes = e.structTypeTable()
	fc.concrete = true
	// --- entry heap ---
	oldHeap := map[string]*Term{}
	newHeap := map[string]*Term{}
	memOld := mkConst("MemBase", SMem)
	memNew := mkConst("MemBase", SMem)
	arrByName := map[string]*rpArray{}
	for _, a := range st.arrays {
		arrByName[a.name] = a
		inner := mkK0()
		for i := int64(0); i < a.size; i++ {
			w := "0"
			if v, ok := a.words[i]; ok {
				w = v
			}
			inner = mkStore(inner, mkI(i), bigLit(w))
		}
		memOld = mkStore(memOld, bigLit(a.id), inner)
	}
	dst, _, _ := structOf(e.spkgs["decimal"].Type("Decimal").Type())
	setObj := func(h map[string]*Term, addr *Term, f map[string]string, sl Val) {
		for i := 0; i < dst.NumFields(); i++ {
			fl := dst.Field(i)
			key := fieldKey("Decimal", fl.Name())
			if fl.Name() == "mant" {
				for suf, v := range map[string]*Term{".arr": sl.Arr, ".off": sl.Off, ".len": sl.Len, ".cap": sl.Cap} {
					base, ok := h[key+suf]
					if !ok {
						base = mkConst("FBase_"+mangle(key+suf), SArr)
					}
					h[key+suf] = mkStore(base, addr, v)
				}
				continue
			}
			if isBoolType(fl.Type()) {
				base, ok := h[key]
				if !ok {
					base = mkConst("FBase_"+mangle(key), SArrB)
				}
				h[key] = mkStore(base, addr, mkBool(f[fl.Name()] == "true"))
				continue
			}
			base, ok := h[key]
			if !ok {
				base = mkConst("FBase_"+mangle(key), SArr)
			}
			h[key] = mkStore(base, addr, bigLit(f[fl.Name()]))
		}
	}
	sliceOf := func(s *rpSlice, typ types.Type) Val {
		if s.isNil {
			return nilSlice(typ)
		}
		return sliceVal(bigLit(s.arr.id), mkI(s.off), mkI(s.ln), mkI(s.cp), typ)
	}
	decT := dst.Field(0).Type()
	for _, addr := range st.order {
		ob := st.objects[addr]
		setObj(oldHeap, bigLit(addr), ob.fields, sliceOf(ob.mant, decT))
	}
	// --- observed state ---
	panicked := ""
	freshID := int64(1000000)
	arrNew := map[string][]string{}
	type resInfo struct {
		kind, rest string
	}
	results := map[int]resInfo{}
	objLines := map[string][]string{}
	for _, l := range lines {
		switch {
		case strings.HasPrefix(l, "DVC panic="):
			panicked = strings.TrimPrefix(l, "DVC panic=")
		case reArr.MatchString(l):
			mm := reArr.FindStringSubmatch(l)
			arrNew[mm[1]] = strings.Fields(mm[2])
		case reObj.MatchString(l):
			mm := reObj.FindStringSubmatch(l)
			objLines[mm[1]] = mm
		case reRes.MatchString(l):
			mm := reRes.FindStringSubmatch(l)
			var idx int
			fmt.Sscanf(mm[1], "%d", &idx)
			results[idx] = resInfo{mm[2], mm[3]}
		}
	}
	for name, words := range arrNew {
		if a := arrByName[name]; a != nil {
			memNew = mkStore(memNew, bigLit(a.id), litArray(words))
		}
	}
	locSlice := func(where string, off string, ln, cp string, words string, typ types.Type) Val {
		switch where {
		case "nil":
			return nilSlice(typ)
		case "fresh":
			freshID++
			id := mkI(freshID)
			memNew = mkStore(memNew, id, litArray(strings.Fields(words)))
			return sliceVal(id, mkI(0), bigLit(ln), bigLit(cp), typ)
		}
		a := arrByName[where]
		if a == nil {
			return nilSlice(typ)
		}
		return sliceVal(bigLit(a.id), bigLit(off), bigLit(ln), bigLit(cp), typ)
	}
	for _, addr := range st.order {
		ob := st.objects[addr]
		mm := objLines[ob.name]
		if mm == nil {
			r.Body["replay"] = "replay output incomplete"
			return
		}
		f := map[string]string{"exp": mm[2], "prec": mm[3], "mode": mm[4], "acc": mm[5], "form": mm[6], "neg": mm[7]}
		setObj(newHeap, bigLit(addr), f, locSlice(mm[8], mm[9], mm[10], mm[11], mm[12], decT))
	}
	oldHeap["Mem"] = memOld
	newHeap["Mem"] = memNew
	oldHeap["nalloc"], newHeap["nalloc"] = mkI(1000000), mkI(2000000)
	oldHeap["nobj"], newHeap["nobj"] = mkI(1000000), mkI(2000000)
	// --- parameters and results as literals ---
	names := map[string]Val{}
	for _, p := range fn.Params {
		switch u := p.Type().Underlying().(type) {
		case *types.Basic:
			if isBoolType(p.Type()) {
				names[p.Name()] = boolVal(mkBool(m[p.Name()] == "true"))
			} else {
				names[p.Name()] = intVal(bigLit(m[p.Name()]), p.Type())
			}
		case *types.Slice:
			_ = u
			tmp := &rpState{arrays: st.arrays, objects: st.objects}
			et := "Word"
			s := tmp.slice(m, p.Name(), et)
			if s == nil {
				return
			}
			names[p.Name()] = sliceOf(s, p.Type())
		case *types.Pointer:
			names[p.Name()] = ptrVal(bigLit(m[p.Name()]), p.Type())
		}
	}
	res := fn.Signature.Results()
	post := map[string]Val{}
	for k, v := range names {
		post[k] = v
	}
	for i := 0; i < res.Len(); i++ {
		ri, ok := results[i]
		if !ok {
			continue
		}
		var v Val
		rt := res.At(i).Type()
		switch ri.kind {
		case "val":
			if isBoolType(rt) {
				v = boolVal(mkBool(ri.rest == "true"))
			} else {
				v = intVal(bigLit(ri.rest), rt)
			}
		case "ptr":
			v = ptrVal(mkI(0), rt)
			for _, addr := range st.order {
				if st.objects[addr].name == ri.rest {
					v = ptrVal(bigLit(addr), rt)
				}
			}
			if ri.rest == "other" {
				v = ptrVal(mkI(1500000), rt)
			}
		case "slice":
			mm := reSl.FindStringSubmatch(ri.rest)
			if mm == nil {
				continue
			}
			v = locSlice(mm[1], mm[2], mm[3], mm[4], mm[5], rt)
		}
		if n := res.At(i).Name(); n != "" && n != "_" {
			post[n] = v
		}
		post[fmt.Sprintf("result%d", i)] = v
		if i == 0 {
			post["result"] = v
		}
	}
	fc.entry = names
	fc.oldHeap = oldHeap
	fc.nalloc0, fc.nobj0 = mkI(1000000), mkI(1000000)
	evalC := func(env *Env, c *Clause) (res string) {
		defer func() {
			if rec := recover(); rec != nil {
				res = fmt.Sprintf("not evaluable (%v)", rec)
			}
		}()
		t := fc.evalSpecBool(env, c.E)
		if t.isTrue() {
			return "holds"
		}
		if t.isFalse() {
			return "VIOLATED"
		}
		return "not decided concretely"
	}
	pre := &Env{fc: fc, names: names, heap: oldHeap, oldNames: names, oldHeap: oldHeap, pos: fn.Pos()}
	verdicts := map[string]string{}
	faithful := true
	for _, c := range ct.Requires {
		v := evalC(pre, c)
		verdicts["requires["+c.Label+"]"] = v
		if v != "holds" {
			faithful = false
		}
	}
	confirmed := false
	why := ""
	switch {
	case strings.HasPrefix(panicked, "other"):
		verdicts["panic"] = panicked
		confirmed = true
		why = "the real code panics with a value that is not an ErrNaN: " + panicked
	case panicked == "errnan":
		verdicts["panic"] = "ErrNaN"
		any := false
		for _, c := range ct.Panics {
			if evalC(pre, c) == "holds" {
				any = true
			}
		}
		if !any {
			confirmed = true
			why = "the real code panics with ErrNaN although no panics clause allows it"
		}
		penv := &Env{fc: fc, names: names, heap: newHeap, oldNames: names, oldHeap: oldHeap, nalloc0: mkI(1000000), nobj0: mkI(1000000), pos: fn.Pos()}
		for _, c := range ct.OnPanic {
			v := evalC(penv, c)
			verdicts["onpanic["+c.Label+"]"] = v
			if v == "VIOLATED" {
				confirmed = true
				why = "onpanic[" + c.Label + "] is false on the real code"
			}
		}
	default:
		penv := &Env{fc: fc, names: post, heap: newHeap, oldNames: names, oldHeap: oldHeap, nalloc0: mkI(1000000), nobj0: mkI(1000000), pos: fn.Pos()}
		for _, c := range ct.Ensures {
			v := evalC(penv, c)
			verdicts["ensures["+c.Label+"]"] = v
			if v == "VIOLATED" {
				confirmed = true
				why = "ensures[" + c.Label + "] is false on the real code: " + c.Text
			}
		}
		for _, c := range ct.Panics {
			if evalC(pre, c) == "holds" {
				confirmed = true
				why = "the contract requires an ErrNaN panic here (" + c.Text + ") but the real code returned normally"
			}
		}
	}
	r.Body["replay_verdicts"] = verdicts
	if !faithful {
		r.Body["replay"] = "inconclusive: the concrete state built from the model does not satisfy the preconditions (model truncated)"
		return
	}
	if confirmed {
		r.Confirmed = true
		r.Body["replay"] = "CONFIRMED on the real code: " + why
	} else {
		r.Body["replay"] = "the model's entry state does not make the real code violate its contract (spurious model or internal obligation)"
	}
}
