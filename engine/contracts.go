package main

// Reader for the //@ contract files that live next to the code in /repo
// (contracts_verif.go, build tag verif).

import (
	"bufio"
	"fmt"
	"os"
	"regexp"
	"strconv"
	"strings"
)

type Clause struct {
	Kind  string // requires, ensures, panics, onpanic, invariant, hint
	Label string
	Props []string
	Text  string
	E     *Expr
	Assumed bool // clause is not proved for its own function (listed in evidence), callers may use it
	File  string
	Line  int
}

type Hint struct {
	Where     string // entry, exit, head, back, after:<callee>#<n>
	SplitOnly bool   // label suffix @split: only used in the pass that proves the split clauses
	Clause
}

type LoopSpec struct {
	Invs     []*Clause
	Modifies []*Expr
	HasMod   bool
	Hints    []*Hint
}

type Split struct {
	Var    string
	Lo, Hi int
	Table  string // split a struct parameter over the rows of a package-level table
	Expr   *Expr  // split over the value of an expression of the parameters
	For    []string // if set: the split is only used to prove these ensures labels (second pass)
}

type Contract struct {
	Key      string
	Header   string
	Requires []*Clause
	Ensures  []*Clause
	Modifies []*Expr
	HasMod   bool
	Panics   []*Clause // ErrNaN panic iff (disjunction of) these
	OnPanic  []*Clause
	Loops    map[int]*LoopSpec
	Hints    []*Hint
	Status   string // proved (default), assumed, bounded
	Note     string
	Splits   []Split
	Inline   bool
	Pure     bool
	Extern   bool
	SameAs   string
	NoMerge  bool
	Ghosts   []string // ghost results: existential witnesses of the postconditions
	Tags     map[string][]string
	File     string
	Line     int
	AsmFile  string               // assembly source of a body-less function (verified by asm.go)
	Labels   map[string]*LoopSpec // invariants, frames and hints attached to assembly labels
}

type Macro struct {
	Name   string
	Params []string
	Body   *Expr
}

type Lemma struct {
	Name     string
	Params   []string // names; sort by suffix convention: names starting with 'm' are arrays unless declared
	PSorts   []Sort
	Requires []*Clause
	Ensures  []*Clause
	Induct   string   // induction variable
	Base     *Expr    // base value expression
	Uses     []*Expr  // lemma instances usable in the step (calls)
	Axiom    bool
	Line     int
}

type ContractSet struct {
	Funcs  map[string]*Contract
	Macros map[string]*Macro
	Lemmas map[string]*Lemma
	Files  []string
}

var clauseKW = map[string]bool{"requires": true, "ensures": true, "modifies": true, "panics": true, "onpanic": true,
	"loop": true, "hint": true, "status": true, "split": true, "inline": true, "pure": true,
	"induction": true, "use": true, "axiom": true, "same": true, "tags": true, "ghost": true, "nomerge": true, "asm": true, "label": true}

var hdrFunc = regexp.MustCompile(`^func\s+(?:\(\s*\w*\s*\*?\s*([\w.]+)\s*\)\s*)?([\w.$]+)`)
var labelRe = regexp.MustCompile(`^\[([^\]]*)\]`)

func loadContracts(paths []string) (*ContractSet, error) {
	cs := &ContractSet{Funcs: map[string]*Contract{}, Macros: map[string]*Macro{}, Lemmas: map[string]*Lemma{}}
	for _, p := range paths {
		if err := cs.loadFile(p); err != nil {
			return nil, err
		}
		cs.Files = append(cs.Files, p)
	}
	for k, c := range cs.Funcs {
		if c.SameAs == "" {
			continue
		}
		o := cs.Funcs[c.SameAs]
		if o == nil {
			return nil, fmt.Errorf("%s: same %s: no such contract", k, c.SameAs)
		}
		c.Requires, c.Ensures, c.Modifies, c.HasMod, c.Panics, c.OnPanic = o.Requires, o.Ensures, o.Modifies, o.HasMod, o.Panics, o.OnPanic
	}
	return cs, nil
}

type rawLine struct {
	text string
	line int
}

func (cs *ContractSet) loadFile(path string) error {
	f, err := os.Open(path)
	if err != nil {
		return err
	}
	defer f.Close()
	sc := bufio.NewScanner(f)
	sc.Buffer(make([]byte, 1<<20), 1<<20)
	var lines []rawLine
	n := 0
	pkgPrefix := ""
	for sc.Scan() {
		n++
		t := strings.TrimSpace(sc.Text())
		if strings.HasPrefix(t, "package ") {
			if pn := strings.TrimSpace(strings.TrimPrefix(t, "package ")); pn != "decimal" {
				pkgPrefix = pn + ":"
			}
		}
		if !strings.HasPrefix(t, "//@") {
			continue
		}
		t = strings.TrimSpace(t[3:])
		if i := strings.Index(t, " //"); i >= 0 { // trailing comment
			t = strings.TrimSpace(t[:i])
		}
		if t == "" || strings.HasPrefix(t, "//") {
			continue
		}
		lines = append(lines, rawLine{t, n})
	}
	// join continuation lines
	var items []rawLine
	for _, l := range lines {
		w := firstWord(l.text)
		if w == "func" || w == "define" || w == "lemma" || w == "extern" || clauseKW[w] {
			items = append(items, l)
		} else if len(items) > 0 {
			items[len(items)-1].text += " " + l.text
		} else {
			return fmt.Errorf("%s:%d: continuation without a clause", path, l.line)
		}
	}
	var cur *Contract
	var curLemma *Lemma
	for _, it := range items {
		w := firstWord(it.text)
		rest := strings.TrimSpace(it.text[len(w):])
		where := fmt.Sprintf("%s:%d", path, it.line)
		switch w {
		case "func", "extern":
			curLemma = nil
			key := ""
			if w == "extern" {
				key = rest
				if i := strings.IndexAny(rest, " \t"); i >= 0 && !strings.HasPrefix(rest, "(") {
					key = rest[:i]
				} else if strings.HasPrefix(rest, "(") {
					// (*math/big.Int).Sign  -- up to first space after the closing paren part
					j := strings.Index(rest, ")")
					k := j + 1
					for k < len(rest) && rest[k] != ' ' && rest[k] != '(' {
						k++
					}
					key = rest[:k]
				}
			} else {
				m := hdrFunc.FindStringSubmatch(it.text)
				if m == nil {
					return fmt.Errorf("%s: cannot parse function header %q", where, it.text)
				}
				key = m[2]
				if m[1] != "" {
					key = m[1] + "." + m[2]
				}
				if !strings.HasPrefix(key, "$") {
					key = pkgPrefix + key
				}
			}
			if _, dup := cs.Funcs[key]; dup {
				return fmt.Errorf("%s: duplicate contract for %s", where, key)
			}
			cur = &Contract{Key: key, Header: it.text, Loops: map[int]*LoopSpec{}, Status: "proved", File: path, Line: it.line, Extern: w == "extern"}
			if cur.Extern {
				cur.Status = "assumed"
			}
			cs.Funcs[key] = cur
		case "define":
			cur, curLemma = nil, nil
			i := strings.Index(rest, "=")
			j := strings.Index(rest, "(")
			k := strings.Index(rest, ")")
			if i < 0 || j < 0 || k < 0 || k > i {
				return fmt.Errorf("%s: bad define", where)
			}
			name := strings.TrimSpace(rest[:j])
			var params []string
			for _, p := range strings.Split(rest[j+1:k], ",") {
				if p = strings.TrimSpace(p); p != "" {
					params = append(params, p)
				}
			}
			e, err := parseSpec(rest[i+1:])
			if err != nil {
				return fmt.Errorf("%s: %v", where, err)
			}
			cs.Macros[name] = &Macro{Name: name, Params: params, Body: e}
		case "lemma":
			cur = nil
			j := strings.Index(rest, "(")
			k := strings.LastIndex(rest, ")")
			if j < 0 || k < j {
				return fmt.Errorf("%s: bad lemma header", where)
			}
			lm := &Lemma{Name: strings.TrimSpace(rest[:j]), Line: it.line}
			for _, p := range strings.Split(rest[j+1:k], ",") {
				p = strings.TrimSpace(p)
				if p == "" {
					continue
				}
				fs := strings.Fields(p)
				srt := SInt
				if len(fs) == 2 {
					switch fs[1] {
					case "array":
						srt = SArr
					case "bool":
						srt = SBool
					case "int":
					default:
						return fmt.Errorf("%s: bad lemma parameter sort %q", where, fs[1])
					}
				}
				lm.Params = append(lm.Params, fs[0])
				lm.PSorts = append(lm.PSorts, srt)
			}
			cs.Lemmas[lm.Name] = lm
			curLemma = lm
		default:
			label, props := "", []string(nil)
			assumedClause := false
			parseLabel := func(s string) string {
				if m := labelRe.FindStringSubmatch(s); m != nil {
					for i, p := range strings.Split(m[1], ",") {
						p = strings.TrimSpace(p)
						if p == "assumed" {
							assumedClause = true
						} else if i == 0 && !isPropID(p) {
							label = p
						} else if p != "" {
							props = append(props, p)
						}
					}
					return strings.TrimSpace(s[len(m[0]):])
				}
				return s
			}
			mk := func(kind, text string) (*Clause, error) {
				e, err := parseSpec(text)
				if err != nil {
					return nil, fmt.Errorf("%s: %v", where, err)
				}
				return &Clause{Kind: kind, Label: label, Props: props, Text: text, E: e, File: path, Line: it.line, Assumed: assumedClause}, nil
			}
			if curLemma != nil {
				switch w {
				case "requires", "ensures":
					c, err := mk(w, parseLabel(rest))
					if err != nil {
						return err
					}
					if w == "requires" {
						curLemma.Requires = append(curLemma.Requires, c)
					} else {
						curLemma.Ensures = append(curLemma.Ensures, c)
					}
				case "induction":
					// induction <var> from <expr>
					fs := strings.SplitN(rest, " from ", 2)
					if len(fs) != 2 {
						return fmt.Errorf("%s: induction <var> from <base>", where)
					}
					curLemma.Induct = strings.TrimSpace(fs[0])
					e, err := parseSpec(fs[1])
					if err != nil {
						return fmt.Errorf("%s: %v", where, err)
					}
					curLemma.Base = e
				case "use":
					e, err := parseSpec(rest)
					if err != nil {
						return fmt.Errorf("%s: %v", where, err)
					}
					curLemma.Uses = append(curLemma.Uses, e)
				case "axiom":
					curLemma.Axiom = true
				default:
					return fmt.Errorf("%s: clause %s not allowed in a lemma", where, w)
				}
				continue
			}
			if cur == nil {
				return fmt.Errorf("%s: clause outside a function contract", where)
			}
			switch w {
			case "requires", "ensures", "panics", "onpanic":
				c, err := mk(w, parseLabel(rest))
				if err != nil {
					return err
				}
				switch w {
				case "requires":
					cur.Requires = append(cur.Requires, c)
				case "ensures":
					cur.Ensures = append(cur.Ensures, c)
				case "panics":
					cur.Panics = append(cur.Panics, c)
				case "onpanic":
					cur.OnPanic = append(cur.OnPanic, c)
				}
			case "modifies":
				cur.HasMod = true
				es, err := parseExprList(rest)
				if err != nil {
					return fmt.Errorf("%s: %v", where, err)
				}
				cur.Modifies = append(cur.Modifies, es...)
			case "asm":
				cur.AsmFile = strings.TrimSpace(rest)
			case "label":
				fs := strings.Fields(rest)
				if len(fs) < 2 {
					return fmt.Errorf("%s: label L invariant|modifies|hint ...", where)
				}
				if cur.Labels == nil {
					cur.Labels = map[string]*LoopSpec{}
				}
				ls := cur.Labels[fs[0]]
				if ls == nil {
					ls = &LoopSpec{}
					cur.Labels[fs[0]] = ls
				}
				body := strings.TrimSpace(rest[len(fs[0]):])
				kw := firstWordBracket(body)
				body = strings.TrimSpace(body[len(kw):])
				switch kw {
				case "invariant":
					c, err := mk("invariant", parseLabel(body))
					if err != nil {
						return err
					}
					ls.Invs = append(ls.Invs, c)
				case "modifies":
					ls.HasMod = true
					es, err := parseExprList(body)
					if err != nil {
						return fmt.Errorf("%s: %v", where, err)
					}
					ls.Modifies = append(ls.Modifies, es...)
				case "hint":
					body = parseLabel(body)
					wh := "back"
					if label == "head" || label == "back" {
						wh = label
					}
					c, err := mk("hint", body)
					if err != nil {
						return err
					}
					ls.Hints = append(ls.Hints, &Hint{Where: wh, Clause: *c})
				default:
					return fmt.Errorf("%s: unknown label clause %q", where, kw)
				}
			case "loop":
				fs := strings.Fields(rest)
				if len(fs) < 2 {
					return fmt.Errorf("%s: loop N invariant|modifies|hint ...", where)
				}
				n, err := strconv.Atoi(fs[0])
				if err != nil {
					return fmt.Errorf("%s: loop ordinal: %v", where, err)
				}
				ls := cur.Loops[n]
				if ls == nil {
					ls = &LoopSpec{}
					cur.Loops[n] = ls
				}
				body := strings.TrimSpace(rest[len(fs[0]):])
				kw := firstWordBracket(body)
				body = strings.TrimSpace(body[len(kw):])
				switch kw {
				case "invariant":
					c, err := mk("invariant", parseLabel(body))
					if err != nil {
						return err
					}
					ls.Invs = append(ls.Invs, c)
				case "modifies":
					ls.HasMod = true
					es, err := parseExprList(body)
					if err != nil {
						return fmt.Errorf("%s: %v", where, err)
					}
					ls.Modifies = append(ls.Modifies, es...)
				case "hint":
					body = parseLabel(body)
					wh := "back"
					if label == "head" || label == "back" || label == "entry" {
						wh = label
					}
					c, err := mk("hint", body)
					if err != nil {
						return err
					}
					ls.Hints = append(ls.Hints, &Hint{Where: wh, Clause: *c})
				default:
					return fmt.Errorf("%s: unknown loop clause %q", where, kw)
				}
			case "hint":
				body := parseLabel(rest)
				wh := label
				if wh == "" {
					wh = "exit"
				}
				c, err := mk("hint", body)
				if err != nil {
					return err
				}
				so := false
				if strings.HasSuffix(wh, "@split") {
					so = true
					wh = strings.TrimSuffix(wh, "@split")
				}
				cur.Hints = append(cur.Hints, &Hint{Where: wh, Clause: *c, SplitOnly: so})
			case "status":
				fs := strings.Fields(rest)
				if len(fs) == 0 {
					return fmt.Errorf("%s: status needs a value", where)
				}
				cur.Status = fs[0]
				cur.Note = strings.TrimSpace(rest[len(fs[0]):])
			case "split":
				var forLabels []string
				if i := strings.LastIndex(rest, " for "); i > 0 {
					for _, l := range strings.Split(rest[i+5:], ",") {
						forLabels = append(forLabels, strings.TrimSpace(l))
					}
					rest = strings.TrimSpace(rest[:i])
				}
				sp, err := parseSplit(rest)
				if err != nil {
					return fmt.Errorf("%s: %v", where, err)
				}
				sp.For = forLabels
				cur.Splits = append(cur.Splits, sp)
			case "nomerge":
				cur.NoMerge = true
			case "ghost":
				for _, g := range strings.Split(rest, ",") {
					if g = strings.TrimSpace(g); g != "" {
						cur.Ghosts = append(cur.Ghosts, g)
					}
				}
			case "same":
				cur.SameAs = strings.Fields(rest)[0]
			case "tags":
				fs := strings.Fields(rest)
				if len(fs) < 2 {
					return fmt.Errorf("%s: tags <kind> <props>", where)
				}
				if cur.Tags == nil {
					cur.Tags = map[string][]string{}
				}
				for _, p := range strings.Split(strings.Join(fs[1:], ""), ",") {
					if p != "" {
						cur.Tags[fs[0]] = append(cur.Tags[fs[0]], p)
					}
				}
			case "inline":
				cur.Inline = true
			case "pure":
				cur.Pure = true
			default:
				return fmt.Errorf("%s: unknown clause %q", where, w)
			}
		}
	}
	return nil
}

func isPropID(s string) bool {
	if len(s) < 3 || s[0] != 'C' {
		return false
	}
	for _, c := range s[1:] {
		if c < '0' || c > '9' {
			return false
		}
	}
	return true
}

func firstWord(s string) string {
	for i, c := range s {
		if c == ' ' || c == '\t' || c == '[' || c == '(' {
			return s[:i]
		}
	}
	return s
}

func firstWordBracket(s string) string { return firstWord(s) }

// parseExprList splits on top-level commas.
func parseExprList(s string) ([]*Expr, error) {
	var out []*Expr
	depth, start := 0, 0
	flush := func(end int) error {
		t := strings.TrimSpace(s[start:end])
		if t == "" {
			return nil
		}
		e, err := parseSpec(t)
		if err != nil {
			return err
		}
		out = append(out, e)
		return nil
	}
	for i, c := range s {
		switch c {
		case '(', '[':
			depth++
		case ')', ']':
			depth--
		case ',':
			if depth == 0 {
				if err := flush(i); err != nil {
					return nil, err
				}
				start = i + 1
			}
		}
	}
	if err := flush(len(s)); err != nil {
		return nil, err
	}
	return out, nil
}

// parseSplit parses "v in lo..hi", "<expr> in lo..hi" or "v in table T".
func parseSplit(rest string) (Split, error) {
	var lo, hi int
	if fs := strings.Fields(rest); len(fs) == 4 && fs[1] == "in" && fs[2] == "table" {
		return Split{Var: fs[0], Table: fs[3]}, nil
	}
	i := strings.LastIndex(rest, " in ")
	if i <= 0 {
		return Split{}, fmt.Errorf("split <var|expr> in lo..hi")
	}
	if _, err := fmt.Sscanf(strings.ReplaceAll(rest[i+4:], "..", " "), "%d %d", &lo, &hi); err != nil {
		return Split{}, fmt.Errorf("split bounds: %v", err)
	}
	lhs := strings.TrimSpace(rest[:i])
	if strings.ContainsAny(lhs, "%/+-*(?. ") {
		ex, err := parseSpec(lhs)
		if err != nil {
			return Split{}, err
		}
		return Split{Var: lhs, Lo: lo, Hi: hi, Expr: ex}, nil
	}
	return Split{Var: lhs, Lo: lo, Hi: hi}, nil
}
