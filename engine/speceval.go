package main

import (
	"os"
	"fmt"
	"go/token"
	"go/types"
	"math/big"
	"strings"
)

type Env struct {
	fc       *FnCtx
	names    map[string]Val
	cellsAt  *State // when non-nil, identifiers may name local cells of this state
	heap     map[string]*Term
	oldNames map[string]Val
	oldHeap  map[string]*Term
	pos      token.Pos
	nalloc0  *Term
	nobj0    *Term
	pkgOverride *types.Package
	inOld    bool
	bound    map[string]Val // let / forall / macro parameters
	preHeap  map[string]*Term // after-call hints: the heap right before the call, read by pre(e)
}

func (env *Env) pkg() *types.Package {
	if env.pkgOverride != nil {
		return env.pkgOverride
	}
	return env.fc.pkg
}

func (env *Env) with(name string, v Val) *Env {
	e := *env
	e.bound = make(map[string]Val, len(env.bound)+1)
	for k, x := range env.bound {
		e.bound[k] = x
	}
	e.bound[name] = v
	return &e
}

func mathInt(t *Term) Val { return Val{K: VInt, T: t} }

func (fc *FnCtx) evalSpecBool(env *Env, e *Expr) *Term {
	v := fc.evalSpec(env, e)
	if v.K != VBool {
		panic(unsupported("spec expression is not boolean: " + e.String()))
	}
	return v.T
}

var specB *big.Int

func init() {
	specB, _ = new(big.Int).SetString("10000000000000000000", 10)
}

func (fc *FnCtx) evalSpec(env *Env, e *Expr) Val {
	switch e.Kind {
	case "int":
		return mathInt(mkInt(e.Val))
	case "ident":
		return fc.specIdent(env, e.Name)
	case "old":
		o := *env
		o.heap = env.oldHeap
		o.inOld = true
		return fc.evalSpec(&o, e.Args[0])
	case "un":
		v := fc.evalSpec(env, e.Args[0])
		if e.Op == "!" {
			return boolVal(mkNot(v.T))
		}
		return mathInt(mkNeg(v.T))
	case "cond":
		c := fc.evalSpecBool(env, e.Args[0])
		a := fc.evalSpec(env, e.Args[1])
		b := fc.evalSpec(env, e.Args[2])
		if a.K == VBool {
			return boolVal(mkIte(c, a.T, b.T))
		}
		if a.K == VSlice {
			return sliceVal(mkIte(c, a.Arr, b.Arr), mkIte(c, a.Off, b.Off), mkIte(c, a.Len, b.Len), mkIte(c, a.Cap, b.Cap), a.Typ)
		}
		r := a
		r.T = mkIte(c, a.T, b.T)
		return r
	case "let":
		v := fc.evalSpec(env, e.Args[0])
		return fc.evalSpec(env.with(e.Name, v), e.Args[1])
	case "forall":
		lo := fc.evalSpec(env, e.Args[0])
		hi := fc.evalSpec(env, e.Args[1])
		if fc.concrete && lo.T.isInt() && hi.T.isInt() && lo.T.Val.IsInt64() && hi.T.Val.IsInt64() && hi.T.Val.Int64()-lo.T.Val.Int64() <= 256 {
			var cs []*Term
			for k := lo.T.Val.Int64(); k < hi.T.Val.Int64(); k++ {
				cs = append(cs, fc.evalSpecBool(env.with(e.Name, mathInt(mkI(k))), e.Args[2]))
			}
			return boolVal(mkAnd(cs...))
		}
		fc.nfresh++
		vn := fmt.Sprintf("?%s_%d", e.Name, fc.nfresh)
		bv := mkConst(vn, SInt)
		body := fc.evalSpecBool(env.with(e.Name, mathInt(bv)), e.Args[2])
		guard := mkAnd(mkLe(lo.T, bv), mkLt(bv, hi.T))
		return boolVal(mkForall(vn, mkImp(guard, body)))
	case "bin":
		return fc.specBin(env, e)
	case "sel":
		return fc.specSel(env, e)
	case "index":
		b := fc.evalSpec(env, e.Args[0])
		i := fc.evalSpec(env, e.Args[1])
		if b.K == VSlice {
			et := elemTypeOfSlice(b.Typ)
			hp := env.heap
			if e.Args[0].Kind == "old" {
				// old(s)[k]: the sequence s held at entry (header AND words), indexed by the current k
				hp = env.oldHeap
			}
			return Val{K: VInt, T: fc.memSel(hp, b.Arr, mkAdd(b.Off, i.T)), Typ: et}
		}
		panic(unsupported("spec index on non-slice: " + e.String()))
	case "slice":
		b := fc.evalSpec(env, e.Args[0])
		if b.K != VSlice {
			panic(unsupported("spec slice of non-slice: " + e.String()))
		}
		lo := mkI(0)
		if e.Args[1] != nil {
			lo = fc.evalSpec(env, e.Args[1]).T
		}
		hi := b.Len
		if e.Args[2] != nil {
			hi = fc.evalSpec(env, e.Args[2]).T
		}
		return sliceVal(b.Arr, mkAdd(b.Off, lo), mkSub(hi, lo), mkSub(b.Cap, lo), b.Typ)
	case "call":
		return fc.specCall(env, e)
	}
	panic(unsupported("spec expression kind " + e.Kind))
}

func (fc *FnCtx) specIdent(env *Env, name string) Val {
	if v, ok := env.bound[name]; ok {
		return v
	}
	if env.inOld {
		if v, ok := env.oldNames[name]; ok {
			return v
		}
	} else if env.cellsAt == nil {
		if v, ok := env.names[name]; ok {
			return v
		}
	}
	if env.cellsAt != nil {
		if c := fc.cellNamed(env.cellsAt, name, env.pos); c != nil {
			if v, ok := env.cellsAt.cells[c]; ok {
				return v
			}
		}
	}
	if v, ok := env.names[name]; ok {
		return v
	}
	switch name {
	case "true":
		return boolVal(tTrue)
	case "false":
		return boolVal(tFalse)
	case "nil":
		return Val{K: VPtr, T: mkI(0)}
	case "B":
		return mathInt(mkInt(specB))
	}
	// package-level constant
	if v, t, ok := fc.eng.lookupConst(env.pkg(), name); ok {
		return Val{K: VInt, T: mkInt(v), Typ: t}
	}
	if env.pkg() != fc.pkg {
		if v, t, ok := fc.eng.lookupConst(fc.pkg, name); ok {
			return Val{K: VInt, T: mkInt(v), Typ: t}
		}
	}
	if dp := fc.eng.spkgs["decimal"]; dp != nil && dp.Pkg != fc.pkg {
		// contract vocabulary defined next to package decimal is also used from package context
		if v, t, ok := fc.eng.lookupConst(dp.Pkg, name); ok {
			return Val{K: VInt, T: mkInt(v), Typ: t}
		}
	}
	// package-level variable
	for _, p := range []*types.Package{env.pkg(), fc.pkg} {
		if obj, ok := p.Scope().Lookup(name).(*types.Var); ok {
			sp := fc.eng.prog.Package(p)
			if g, ok := sp.Members[name].(interface{ Name() string }); ok && g != nil {
				if gg := fc.eng.globals[name]; gg != nil && p.Name() == "decimal" {
					st := env.cellsAt
					if st == nil {
						st = &State{}
					}
					return fc.loadGlobal(st, gg.G)
				}
			}
			_ = obj
		}
	}
	panic(unsupported("unknown identifier in spec: " + name))
}

// cellNamed resolves a source identifier to the local cell in scope at pos.
func (fc *FnCtx) cellNamed(s *State, name string, pos token.Pos) *Cell {
	cs := fc.cellsByName[name]
	var live []*Cell
	for _, c := range cs {
		if _, ok := s.cells[c]; ok && s.allocs[c.Alloc] == c {
			live = append(live, c)
		}
	}
	if len(live) == 0 {
		return nil
	}
	if len(live) == 1 {
		return live[0]
	}
	// shadowing: use go/types scopes
	if pos.IsValid() {
		if sc := fc.pkg.Scope().Innermost(pos); sc != nil {
			if _, obj := sc.LookupParent(name, pos); obj != nil {
				for _, c := range live {
					if c.Alloc.Pos() == obj.Pos() {
						return c
					}
				}
			}
		}
	}
	// the most recently allocated one
	best := live[0]
	for _, c := range live {
		if c.id > best.id {
			best = c
		}
	}
	return best
}

func (fc *FnCtx) specSel(env *Env, e *Expr) Val {
	// package-qualified constant
	if id := e.Args[0]; id.Kind == "ident" {
		_, b1 := env.names[id.Name]
		_, b2 := env.bound[id.Name]
		if !b1 && !b2 {
			for _, imp := range env.pkg().Imports() {
				if imp.Name() == id.Name {
					if v, t, ok := fc.eng.lookupConst(imp, e.Name); ok {
						return Val{K: VInt, T: mkInt(v), Typ: t}
					}
				}
			}
		}
	}
	b := fc.evalSpec(env, e.Args[0])
	switch b.K {
	case VPtr:
		st, sname, ok := structOf(b.Typ)
		if !ok {
			panic(unsupported("selector on pointer to non-struct: " + e.String()))
		}
		for i := 0; i < st.NumFields(); i++ {
			if st.Field(i).Name() == e.Name {
				return fc.loadFieldIn(env.heap, sname, st.Field(i), b.T)
			}
		}
	case VStruct:
		st := b.Typ.Underlying().(*types.Struct)
		for i := 0; i < st.NumFields(); i++ {
			if st.Field(i).Name() == e.Name {
				return b.Elems[i]
			}
		}
	case VSlice:
		switch e.Name {
		case "arr":
			return mathInt(b.Arr)
		case "off":
			return mathInt(b.Off)
		}
	}
	panic(unsupported("selector " + e.String()))
}

func (fc *FnCtx) specBin(env *Env, e *Expr) Val {
	switch e.Op {
	case "&&":
		return boolVal(mkAnd(fc.evalSpecBool(env, e.Args[0]), fc.evalSpecBool(env, e.Args[1])))
	case "||":
		return boolVal(mkOr(fc.evalSpecBool(env, e.Args[0]), fc.evalSpecBool(env, e.Args[1])))
	case "==>":
		return boolVal(mkImp(fc.evalSpecBool(env, e.Args[0]), fc.evalSpecBool(env, e.Args[1])))
	case "<==>":
		return boolVal(mkEq(fc.evalSpecBool(env, e.Args[0]), fc.evalSpecBool(env, e.Args[1])))
	}
	a := fc.evalSpec(env, e.Args[0])
	b := fc.evalSpec(env, e.Args[1])
	switch e.Op {
	case "==", "!=":
		var eq *Term
		switch {
		case a.K == VSlice && b.K == VSlice:
			eq = mkAnd(mkEq(a.Arr, b.Arr), mkEq(a.Off, b.Off), mkEq(a.Len, b.Len), mkEq(a.Cap, b.Cap))
		case a.K == VSlice && b.K == VPtr: // == nil
			eq = mkAnd(mkEq(a.Arr, mkI(0)), mkEq(a.Cap, mkI(0)))
		case a.K == VStruct || b.K == VStruct:
			panic(unsupported("struct comparison in spec"))
		default:
			if a.T == nil || b.T == nil {
				panic(unsupported("comparison in spec: " + e.String()))
			}
			if a.T.Sort != b.T.Sort {
				panic(unsupported("comparison of different sorts in spec: " + e.String()))
			}
			eq = mkEq(a.T, b.T)
		}
		if e.Op == "!=" {
			eq = mkNot(eq)
		}
		return boolVal(eq)
	case "<", "<=", ">", ">=":
		return boolVal(mkCmp(e.Op, a.T, b.T))
	case "+":
		return mathInt(mkAdd(a.T, b.T))
	case "-":
		return mathInt(mkSub(a.T, b.T))
	case "*":
		return mathInt(mkMul(a.T, b.T))
	case "/":
		return mathInt(mkDiv(a.T, b.T))
	case "%":
		return mathInt(mkMod(a.T, b.T))
	}
	panic(unsupported("spec operator " + e.Op))
}

func (fc *FnCtx) specSliceArg(env *Env, e *Expr) Val {
	v := fc.evalSpec(env, e)
	if v.K != VSlice {
		panic(unsupported("expected a slice: " + e.String()))
	}
	return v
}

func (fc *FnCtx) specV(env *Env, s Val) *Term {
	return mkV(mkSelect(fc.heapIn(env.heap, "Mem", SMem), s.Arr), s.Off, mkAdd(s.Off, s.Len))
}

func (fc *FnCtx) specCall(env *Env, e *Expr) Val {
	if m, ok := fc.eng.cs.Macros[e.Name]; ok {
		if len(m.Params) != len(e.Args) {
			panic(unsupported("macro arity: " + e.String()))
		}
		me := *env
		me.bound = make(map[string]Val, len(env.bound)+len(m.Params))
		for k, v := range env.bound {
			me.bound[k] = v
		}
		for i, p := range m.Params {
			me.bound[p] = fc.evalSpec(env, e.Args[i])
		}
		// macro bodies see only their parameters (plus constants), not local cells
		return fc.evalSpec(&me, m.Body)
	}
	if e.Name == "pre" && len(e.Args) == 1 {
		// pre(e) in a hint placed after a call: e with the memory as it was before the call
		if env.preHeap == nil {
			panic(unsupported("pre(...) outside a hint[after:...]"))
		}
		o := *env
		o.heap = env.preHeap
		return fc.evalSpec(&o, e.Args[0])
	}
	arg := func(i int) Val { return fc.evalSpec(env, e.Args[i]) }
	if strings.HasPrefix(e.Name, "uf_") {
		// uninterpreted specification function over integers/pointers (used to relate the
		// results of two extern calls on the same object, e.g. BitLen and Bits)
		var ts []*Term
		for i := range e.Args {
			ts = append(ts, arg(i).T)
		}
		return mathInt(app(e.Name, SInt, ts...))
	}
	switch e.Name {
	case "len":
		v := arg(0)
		if v.K == VSlice {
			return mathInt(v.Len)
		}
		if v.K == VOpaque {
			return mathInt(app("strlen", SInt, v.T))
		}
	case "cap":
		return mathInt(fc.specSliceArg(env, e.Args[0]).Cap)
	case "V", "V2":
		mk := mkV
		if e.Name == "V2" {
			mk = mkV2
		}
		if len(e.Args) == 1 {
			s := fc.specSliceArg(env, e.Args[0])
			return mathInt(mk(mkSelect(fc.heapIn(env.heap, "Mem", SMem), s.Arr), s.Off, mkAdd(s.Off, s.Len)))
		}
		if len(e.Args) == 3 {
			// V(s, lo, hi): value of s[lo:hi]
			s := fc.specSliceArg(env, e.Args[0])
			lo, hi := arg(1).T, arg(2).T
			hp := env.heap
			if e.Args[0].Kind == "old" {
				hp = env.oldHeap // V(old(s), lo, hi): words as they were at entry
			}
			return mathInt(mk(mkSelect(fc.heapIn(hp, "Mem", SMem), s.Arr), mkAdd(s.Off, lo), mkAdd(s.Off, hi)))
		}
	case "P":
		return mathInt(mkP(arg(0).T))
	case "pow2":
		// 2^k for 0 <= k < 64 (the same case table the generator uses for variable shifts)
		return mathInt(fc.pow2Term(arg(0).T, 64))
	case "P2":
		return mathInt(mkP2(arg(0).T))
	case "p10":
		return mathInt(mkP10(arg(0).T))
	case "wordsok":
		s := fc.specSliceArg(env, e.Args[0])
		if fc.concrete && s.Len.isInt() && s.Len.Val.IsInt64() && s.Len.Val.Int64() <= 256 {
			var cs []*Term
			for k := int64(0); k < s.Len.Val.Int64(); k++ {
				el := fc.memSel(env.heap, s.Arr, mkAdd(s.Off, mkI(k)))
				cs = append(cs, mkAnd(mkLe(mkI(0), el), mkLt(el, mkInt(specB))))
			}
			return boolVal(mkAnd(cs...))
		}
		fc.nfresh++
		vn := fmt.Sprintf("?w_%d", fc.nfresh)
		bv := mkConst(vn, SInt)
		el := fc.memSel(env.heap, s.Arr, mkAdd(s.Off, bv))
		body := mkImp(mkAnd(mkLe(mkI(0), bv), mkLt(bv, s.Len)), mkAnd(mkLe(mkI(0), el), mkLt(el, mkInt(specB))))
		return boolVal(mkForall(vn, body))
	case "sameslice": // same (arr, off, len)
		a, b := fc.specSliceArg(env, e.Args[0]), fc.specSliceArg(env, e.Args[1])
		return boolVal(mkAnd(mkEq(a.Arr, b.Arr), mkEq(a.Off, b.Off), mkEq(a.Len, b.Len)))
	case "samebase":
		a, b := fc.specSliceArg(env, e.Args[0]), fc.specSliceArg(env, e.Args[1])
		return boolVal(mkAnd(mkEq(a.Arr, b.Arr), mkEq(a.Off, b.Off)))
	case "samearr":
		a, b := fc.specSliceArg(env, e.Args[0]), fc.specSliceArg(env, e.Args[1])
		return boolVal(mkEq(a.Arr, b.Arr))
	case "disjoint": // the len-ranges share no element
		a, b := fc.specSliceArg(env, e.Args[0]), fc.specSliceArg(env, e.Args[1])
		return boolVal(mkOr(mkNot(mkEq(a.Arr, b.Arr)), mkLe(mkAdd(a.Off, a.Len), b.Off), mkLe(mkAdd(b.Off, b.Len), a.Off)))
	case "disjointcap":
		a, b := fc.specSliceArg(env, e.Args[0]), fc.specSliceArg(env, e.Args[1])
		return boolVal(mkOr(mkNot(mkEq(a.Arr, b.Arr)), mkLe(mkAdd(a.Off, a.Cap), b.Off), mkLe(mkAdd(b.Off, b.Cap), a.Off),
			mkEq(a.Cap, mkI(0)), mkEq(b.Cap, mkI(0))))
	case "goalias": // stdlib.go alias(): share the end of their capacity
		a, b := fc.specSliceArg(env, e.Args[0]), fc.specSliceArg(env, e.Args[1])
		return boolVal(mkAnd(mkGt(a.Cap, mkI(0)), mkGt(b.Cap, mkI(0)), mkEq(a.Arr, b.Arr), mkEq(mkAdd(a.Off, a.Cap), mkAdd(b.Off, b.Cap))))
	case "gosame": // stdlib.go same()
		a, b := fc.specSliceArg(env, e.Args[0]), fc.specSliceArg(env, e.Args[1])
		return boolVal(mkAnd(mkEq(a.Len, b.Len), mkGt(a.Len, mkI(0)), mkEq(a.Arr, b.Arr), mkEq(a.Off, b.Off)))
	case "deref":
		// deref(p): the slice a pointer to a slice type points to
		if v, ok := fc.loadSlicePtr(env.heap, arg(0)); ok {
			return v
		}
	case "fresh":
		v := arg(0)
		if env.nalloc0 == nil {
			panic(unsupported("fresh() outside a postcondition"))
		}
		if v.K == VSlice {
			return boolVal(mkGe(v.Arr, env.nalloc0))
		}
		if v.K == VPtr {
			return boolVal(mkGe(v.T, env.nobj0))
		}
	case "isnil":
		v := arg(0)
		if v.K == VSlice {
			return boolVal(mkAnd(mkEq(v.Arr, mkI(0)), mkEq(v.Cap, mkI(0))))
		}
		return boolVal(mkEq(v.T, mkI(0)))
	case "min", "max":
		a, b := arg(0), arg(1)
		c := mkLe(a.T, b.T)
		if e.Name == "max" {
			c = mkGe(a.T, b.T)
		}
		return mathInt(mkIte(c, a.T, b.T))
	case "abs":
		a := arg(0)
		return mathInt(mkIte(mkGe(a.T, mkI(0)), a.T, mkNeg(a.T)))
	case "int", "int64", "int32", "uint", "uint64", "uint32", "Word", "byte":
		v := arg(0)
		if v.K == VBool {
			return mathInt(mkIte(v.T, mkI(1), mkI(0)))
		}
		return mathInt(v.T) // spec integers are unbounded: conversions are the identity
	case "wrap64":
		return mathInt(wrap(ityp{64, false}, arg(0).T))
	case "wrapi64":
		return mathInt(wrap(ityp{64, true}, arg(0).T))
	case "unchanged":
		return boolVal(fc.specUnchanged(env, e.Args[0]))
	case "samewords": // samewords(a, b): equal length and equal words (a in current heap, b via old() if wanted)
		a, b := fc.specSliceArg(env, e.Args[0]), fc.specSliceArg(env, e.Args[1])
		_ = b
		return boolVal(fc.wordsEqual(env.heap, a, env.heap, b))
	case "isErrNaN":
		v := arg(0)
		return boolVal(mkAnd(mkNot(mkEq(v.T, mkI(0))), mkEq(app("dyntype", SInt, v.T), mkI(fc.eng.typeCode("ErrNaN")))))
	case "table":
		// table(name, field?, index)
		if len(e.Args) >= 2 && e.Args[0].Kind == "ident" {
			gi := fc.eng.globals[e.Args[0].Name]
			if gi != nil {
				lit := func(vals []*Term, idx *Term) *Term {
					if idx.isInt() && idx.Val.IsInt64() && idx.Val.Int64() >= 0 && idx.Val.Int64() < int64(len(vals)) {
						return vals[idx.Val.Int64()]
					}
					return nil
				}
				if gi.Kind == "table" && len(e.Args) == 2 {
					fc.usedGlobals[gi.Name] = true
					if v := lit(gi.Ints, arg(1).T); v != nil {
						return mathInt(v)
					}
					return mathInt(mkSelect(fc.tableTerm("T_"+gi.Name, gi.Ints), arg(1).T))
				}
				if gi.Kind == "structtable" && len(e.Args) == 3 && e.Args[1].Kind == "ident" {
					fc.usedGlobals[gi.Name] = true
					if v := lit(gi.Fields[e.Args[1].Name], arg(2).T); v != nil {
						return mathInt(v)
					}
					return mathInt(mkSelect(fc.tableTerm("T_"+gi.Name+"_"+e.Args[1].Name, gi.Fields[e.Args[1].Name]), arg(2).T))
				}
			}
		}
	case "intable":
		// intable(tableName, structValue): the value is one of the rows of the table
		if len(e.Args) == 2 && e.Args[0].Kind == "ident" {
			gi := fc.eng.globals[e.Args[0].Name]
			v := arg(1)
			if gi != nil && gi.Kind == "structtable" && v.K == VStruct {
				st := v.Typ.Underlying().(*types.Struct)
				n := len(gi.Fields[st.Field(0).Name()])
				var rows []*Term
				for r := 0; r < n; r++ {
					var eqs []*Term
					for i := 0; i < st.NumFields(); i++ {
						eqs = append(eqs, mkEq(v.Elems[i].T, gi.Fields[st.Field(i).Name()][r]))
					}
					rows = append(rows, mkAnd(eqs...))
				}
				fc.usedGlobals[gi.Name] = true
				return boolVal(mkOr(rows...))
			}
		}
	}
	panic(unsupported("unknown spec function " + e.Name + "/" + fmt.Sprint(len(e.Args))))
}

// wordsEqual: same length and same words, a read in heap ha, b in heap hb.
func (fc *FnCtx) wordsEqual(ha map[string]*Term, a Val, hb map[string]*Term, b Val) *Term {
	if fc.concrete && a.Len.isInt() && a.Len.Val.IsInt64() && a.Len.Val.Int64() <= 256 {
		cs := []*Term{mkEq(a.Len, b.Len)}
		for k := int64(0); k < a.Len.Val.Int64(); k++ {
			cs = append(cs, mkEq(fc.memSel(ha, a.Arr, mkAdd(a.Off, mkI(k))), fc.memSel(hb, b.Arr, mkAdd(b.Off, mkI(k)))))
		}
		return mkAnd(cs...)
	}
	fc.nfresh++
	vn := fmt.Sprintf("?u_%d", fc.nfresh)
	bv := mkConst(vn, SInt)
	body := mkImp(mkAnd(mkLe(mkI(0), bv), mkLt(bv, a.Len)),
		mkEq(fc.memSel(ha, a.Arr, mkAdd(a.Off, bv)), fc.memSel(hb, b.Arr, mkAdd(b.Off, bv))))
	return mkAnd(mkEq(a.Len, b.Len), mkForall(vn, body))
}

// specUnchanged: e has the same value now as at entry.  For a *Decimal it covers every
// field and the mantissa words; for a slice the header and the words.
func (fc *FnCtx) specUnchanged(env *Env, e *Expr) *Term {
	cur := fc.evalSpec(env, e)
	o := *env
	o.heap = env.oldHeap
	o.inOld = true
	old := fc.evalSpec(&o, e)
	return fc.valUnchanged(env, cur, old, e.String())
}

func (fc *FnCtx) valUnchanged(env *Env, cur, old Val, what string) *Term {
	switch cur.K {
	case VInt, VBool, VOpaque:
		return mkEq(cur.T, old.T)
	case VSlice:
		return mkAnd(mkEq(cur.Arr, old.Arr), mkEq(cur.Off, old.Off), mkEq(cur.Len, old.Len), mkEq(cur.Cap, old.Cap),
			fc.wordsEqual(env.heap, cur, env.oldHeap, old))
	case VPtr:
		st, sname, ok := structOf(cur.Typ)
		if !ok {
			return mkEq(cur.T, old.T)
		}
		var cs []*Term
		for i := 0; i < st.NumFields(); i++ {
			f := st.Field(i)
			cs = append(cs, fc.valUnchanged(env, fc.loadFieldIn(env.heap, sname, f, cur.T), fc.loadFieldIn(env.oldHeap, sname, f, old.T), what+"."+f.Name()))
		}
		return mkAnd(cs...)
	}
	panic(unsupported("unchanged() of " + what))
}

// ---------- hints: instances of library lemmas ----------

func (fc *FnCtx) applyHint(s *State, env *Env, h *Hint, where string) {
	if h.SplitOnly && !fc.splitPass {
		return
	}
	defer func() {
		if r := recover(); r != nil {
			if u, ok := r.(unsupported); ok && strings.HasPrefix(string(u), "unknown identifier") {
				if os.Getenv("DVC_HINTDEBUG") != "" {
					fmt.Fprintf(os.Stderr, "hint skipped at %s: %s: %s\n", where, string(u), h.Text)
				}
				return // the hint mentions a local that does not exist on this path: skip it (hints are optional)
			}
			panic(r)
		}
	}()
	// the function's own ghost results, once bound, can be named in later hints
	for g, t := range s.ghosts {
		if _, ok := env.names[g]; !ok {
			env = env.with(g, mathInt(t))
		}
	}
	e := h.E
	// `cond ==> lemma(args)` guards the instance
	var guard *Term
	if e.Kind == "bin" && e.Op == "==>" {
		guard = fc.evalSpecBool(env, e.Args[0])
		e = e.Args[1]
	}
	if e.Kind != "call" {
		panic(unsupported("hint must be a lemma instance: " + h.Text))
	}
	if e.Name == "bind" && len(e.Args) == 2 && e.Args[0].Kind == "ident" {
		// bind(g, expr): give the ghost result g its witness value at this program point
		v := fc.evalSpec(env, e.Args[1])
		if v.T == nil || v.T.Sort != SInt {
			panic(unsupported("ghost values must be integers: " + h.Text))
		}
		bindIt := func() {
			if s.ghosts == nil {
				s.ghosts = map[string]*Term{}
			}
			s.ghosts[e.Args[0].Name] = v.T
		}
		if guard != nil {
			// conditional binding: keep the previous value otherwise
			prev, ok := s.ghosts[e.Args[0].Name]
			if !ok {
				prev = fc.fresh("ghost_"+e.Args[0].Name, SInt)
			}
			v.T = mkIte(guard, v.T, prev)
		}
		bindIt()
		return
	}
	if e.Name == "assume" {
		// assume(e): taken on trust here, never proved; listed under the assumptions of every check that
		// uses the function (for facts outside the modelled semantics, e.g. a float64 size estimate)
		g := fc.evalSpecBool(env, e.Args[0])
		if guard != nil {
			g = mkImp(guard, g)
		}
		fc.usedAssumed[fmt.Sprintf("%s.assume[%s]: %s (assumed in the function body, not proved)", fc.key, h.Label, e.Args[0].String())] = true
		s.assume(g)
		return
	}
	if e.Name == "assert" {
		// assert(e): prove e here, then use it (a cut)
		g := fc.evalSpecBool(env, e.Args[0])
		if guard != nil {
			g = mkImp(guard, g)
		}
		nm := fmt.Sprintf("%s.assert[%s]@%s", fc.key, h.Label, strings.ReplaceAll(where, " ", ""))
		if ord := fc.assertOrdinal(h); ord > 1 {
			nm = fmt.Sprintf("%s#%d", nm, ord)
		}
		fc.oblige(s, nm, "assert", h.Props, h.Text, g, where)
		s.assume(g)
		return
	}
	lm := fc.eng.cs.Lemmas[e.Name]
	if lm == nil {
		panic(unsupported("unknown lemma in hint: " + e.Name))
	}
	if len(lm.Params) != len(e.Args) {
		panic(unsupported("lemma arity in hint: " + h.Text))
	}
	fc.usedLemmas[lm.Name] = true
	lenv := &Env{fc: fc, names: map[string]Val{}, heap: env.heap, oldNames: map[string]Val{}, oldHeap: env.heap}
	for i, p := range lm.Params {
		v := fc.evalSpec(env, e.Args[i])
		if lm.PSorts[i] == SArr {
			// an array parameter takes a slice expression; it denotes the slice's backing words
			if v.K != VSlice {
				panic(unsupported("lemma array argument must be a slice: " + e.Args[i].String()))
			}
			hp := env.heap
			if e.Args[i].Kind == "old" || env.inOld {
				hp = env.oldHeap
			}
			lenv.names[p] = Val{K: VOpaque, T: mkSelect(fc.heapIn(hp, "Mem", SMem), v.Arr)}
			lenv.names[p+"_off"] = mathInt(v.Off)
		} else {
			lenv.names[p] = v
		}
	}
	var pre []*Term
	for _, r := range lm.Requires {
		pre = append(pre, fc.evalLemmaBool(lenv, r.E))
	}
	p := mkAnd(pre...)
	if guard != nil {
		p = mkImp(guard, p)
	}
	if !p.isTrue() {
		fc.oblige(s, fmt.Sprintf("%s.hint[%s:%s]@%s", fc.key, lm.Name, h.Label, strings.ReplaceAll(where, " ", "")), "lemma-premise", nil,
			"premises of "+h.Text, p, where)
	}
	for _, c := range lm.Ensures {
		t := fc.evalLemmaBool(lenv, c.E)
		if guard != nil {
			t = mkImp(guard, t)
		}
		s.assume(t)
	}
}

// evalLemmaBool evaluates lemma text, where V(m, lo, hi) takes an array parameter.
func (fc *FnCtx) evalLemmaBool(env *Env, e *Expr) *Term {
	v := fc.evalLemma(env, e)
	if v.K != VBool {
		panic(unsupported("lemma clause is not boolean: " + e.String()))
	}
	return v.T
}

func (fc *FnCtx) evalLemma(env *Env, e *Expr) Val {
	// array-typed identifiers are bound to opaque array terms; V/sel over them are handled here
	switch e.Kind {
	case "call":
		if (e.Name == "V" || e.Name == "V2") && len(e.Args) == 3 && e.Args[0].Kind == "ident" {
			if m, ok := env.names[e.Args[0].Name]; ok && m.K == VOpaque && m.T.Sort == SArr {
				off := mkI(0)
				if o, ok := env.names[e.Args[0].Name+"_off"]; ok {
					off = o.T
				}
				lo := fc.evalLemma(env, e.Args[1]).T
				hi := fc.evalLemma(env, e.Args[2]).T
				if e.Name == "V2" {
					return mathInt(mkV2(m.T, mkAdd(off, lo), mkAdd(off, hi)))
				}
				return mathInt(mkV(m.T, mkAdd(off, lo), mkAdd(off, hi)))
			}
		}
		if e.Name == "P" || e.Name == "P2" || e.Name == "p10" || e.Name == "min" || e.Name == "max" {
			var args []Val
			for _, a := range e.Args {
				args = append(args, fc.evalLemma(env, a))
			}
			switch e.Name {
			case "P":
				return mathInt(mkP(args[0].T))
			case "P2":
				return mathInt(mkP2(args[0].T))
			case "p10":
				return mathInt(mkP10(args[0].T))
			case "min":
				return mathInt(mkIte(mkLe(args[0].T, args[1].T), args[0].T, args[1].T))
			case "max":
				return mathInt(mkIte(mkGe(args[0].T, args[1].T), args[0].T, args[1].T))
			}
		}
	case "index":
		if e.Args[0].Kind == "ident" {
			if m, ok := env.names[e.Args[0].Name]; ok && m.K == VOpaque && m.T.Sort == SArr {
				off := mkI(0)
				if o, ok := env.names[e.Args[0].Name+"_off"]; ok {
					off = o.T
				}
				return mathInt(mkSelect(m.T, mkAdd(off, fc.evalLemma(env, e.Args[1]).T)))
			}
		}
	case "bin":
		switch e.Op {
		case "&&":
			return boolVal(mkAnd(fc.evalLemmaBool(env, e.Args[0]), fc.evalLemmaBool(env, e.Args[1])))
		case "||":
			return boolVal(mkOr(fc.evalLemmaBool(env, e.Args[0]), fc.evalLemmaBool(env, e.Args[1])))
		case "==>":
			return boolVal(mkImp(fc.evalLemmaBool(env, e.Args[0]), fc.evalLemmaBool(env, e.Args[1])))
		case "<==>":
			return boolVal(mkEq(fc.evalLemmaBool(env, e.Args[0]), fc.evalLemmaBool(env, e.Args[1])))
		}
		a := fc.evalLemma(env, e.Args[0])
		b := fc.evalLemma(env, e.Args[1])
		switch e.Op {
		case "==":
			return boolVal(mkEq(a.T, b.T))
		case "!=":
			return boolVal(mkNot(mkEq(a.T, b.T)))
		case "<", "<=", ">", ">=":
			return boolVal(mkCmp(e.Op, a.T, b.T))
		case "+":
			return mathInt(mkAdd(a.T, b.T))
		case "-":
			return mathInt(mkSub(a.T, b.T))
		case "*":
			return mathInt(mkMul(a.T, b.T))
		case "/":
			return mathInt(mkDiv(a.T, b.T))
		case "%":
			return mathInt(mkMod(a.T, b.T))
		}
	case "un":
		v := fc.evalLemma(env, e.Args[0])
		if e.Op == "!" {
			return boolVal(mkNot(v.T))
		}
		return mathInt(mkNeg(v.T))
	case "forall":
		lo := fc.evalLemma(env, e.Args[0])
		hi := fc.evalLemma(env, e.Args[1])
		fc.nfresh++
		vn := fmt.Sprintf("?%s_%d", e.Name, fc.nfresh)
		bv := mkConst(vn, SInt)
		body := fc.evalLemmaBool(env.with(e.Name, mathInt(bv)), e.Args[2])
		return boolVal(mkForall(vn, mkImp(mkAnd(mkLe(lo.T, bv), mkLt(bv, hi.T)), body)))
	case "cond":
		c := fc.evalLemmaBool(env, e.Args[0])
		a := fc.evalLemma(env, e.Args[1])
		b := fc.evalLemma(env, e.Args[2])
		r := a
		r.T = mkIte(c, a.T, b.T)
		return r
	}
	return fc.evalSpec(env, e)
}

// assertOrdinal numbers the assert(...) hints that share a label, in contract order
// (obligation names must not depend on line numbers).
func (fc *FnCtx) assertOrdinal(h *Hint) int {
	n := 0
	count := func(hs []*Hint) bool {
		for _, x := range hs {
			if x.E != nil && x.E.Kind == "call" && x.E.Name == "assert" || (x.E != nil && x.E.Kind == "binary" && strings.Contains(x.Text, "assert(")) {
				if x.Label == h.Label && x.Where == h.Where {
					n++
				}
			}
			if x == h {
				return true
			}
		}
		return false
	}
	if fc.ct != nil {
		if count(fc.ct.Hints) {
			return n
		}
		for _, l := range fc.ct.Loops {
			n = 0
			if count(l.Hints) {
				return n
			}
		}
	}
	return 0
}
