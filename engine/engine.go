package main

import (
	"fmt"
	"go/ast"
	"go/constant"
	"go/token"
	"go/types"
	"os"
	"path/filepath"
	"sort"
	"strings"

	"golang.org/x/tools/go/packages"
	"golang.org/x/tools/go/ssa"
	"golang.org/x/tools/go/ssa/ssautil"
)

type Engine struct {
	repo    string
	prog    *ssa.Program
	pkgs    []*packages.Package
	spkgs   map[string]*ssa.Package // by package name
	funcs   map[string]*ssa.Function
	cs      *ContractSet
	fset    *token.FileSet
	globals map[string]*GlobalInfo
	tags    string
	overlay map[string][]byte
	verbose bool
}

type GlobalInfo struct {
	G      *ssa.Global
	Name   string
	Kind   string // "scalar", "table", "structtable", "ptr", "other"
	Ints   []*Term            // table literal
	Fields map[string][]*Term // struct table literal, per field
	Init   *Term              // scalar initial value (for the initialiser obligation)
	Written []string          // functions (non-test) that store to it
}

func funcKey(fn *ssa.Function) string {
	name := fn.Name()
	if fn.Signature.Recv() != nil {
		t := fn.Signature.Recv().Type()
		name = typeName(t) + "." + name
	}
	if fn.Pkg != nil && fn.Pkg.Pkg.Name() != "decimal" {
		return fn.Pkg.Pkg.Name() + ":" + name
	}
	return name
}

// externKey is the lookup key for functions outside the two packages.
func externKey(fn *ssa.Function) string {
	return fn.String() // e.g. (*math/big.Int).Sign, math/bits.Mul64
}

func loadEngine(repo string, tags string) (*Engine, error) { return loadEngineOverlay(repo, tags, nil) }

func loadEngineOverlay(repo string, tags string, overlay map[string][]byte) (*Engine, error) {
	e := &Engine{repo: repo, spkgs: map[string]*ssa.Package{}, funcs: map[string]*ssa.Function{}, globals: map[string]*GlobalInfo{}, tags: tags, overlay: overlay}
	cfg := &packages.Config{Mode: packages.LoadAllSyntax, Dir: repo, BuildFlags: []string{"-tags=" + tags}, Overlay: overlay,
		Env: append(os.Environ(), "GOFLAGS=-mod=mod", "GOPROXY=off", "GOSUMDB=off", "GOTOOLCHAIN=local", "GOARCH=amd64", "GOOS=linux")}
	pkgs, err := packages.Load(cfg, ".", "./context")
	if err != nil {
		return nil, err
	}
	nerr := 0
	for _, p := range pkgs {
		for _, er := range p.Errors {
			fmt.Fprintln(os.Stderr, "load error:", er)
			nerr++
		}
	}
	if nerr > 0 {
		return nil, fmt.Errorf("%d package load errors", nerr)
	}
	e.pkgs = pkgs
	e.fset = pkgs[0].Fset
	prog, spkgs := ssautil.AllPackages(pkgs, ssa.NaiveForm|ssa.GlobalDebug)
	prog.Build()
	e.prog = prog
	for _, sp := range spkgs {
		if sp != nil {
			e.spkgs[sp.Pkg.Name()] = sp
		}
	}
	for fn := range ssautil.AllFunctions(prog) {
		if fn.Pkg == nil {
			continue
		}
		n := fn.Pkg.Pkg.Name()
		if e.spkgs[n] != fn.Pkg {
			continue
		}
		if fn.Parent() != nil || fn.Synthetic != "" {
			continue
		}
		e.funcs[funcKey(fn)] = fn
	}
	var cfiles []string
	for _, d := range []string{repo, filepath.Join(repo, "context")} {
		m, _ := filepath.Glob(filepath.Join(d, "contracts*_verif.go"))
		sort.Strings(m)
		cfiles = append(cfiles, m...)
	}
	cs, err := loadContracts(cfiles)
	if err != nil {
		return nil, err
	}
	e.cs = cs
	e.scanGlobals()
	return e, nil
}

// scanGlobals reads the composite-literal initialisers of package-level tables and
// records which non-test functions write to package-level variables.
func (e *Engine) scanGlobals() {
	sp := e.spkgs["decimal"]
	if sp == nil {
		return
	}
	var pkg *packages.Package
	for _, p := range e.pkgs {
		if p.Name == "decimal" {
			pkg = p
		}
	}
	for name, m := range sp.Members {
		g, ok := m.(*ssa.Global)
		if !ok {
			continue
		}
		e.globals[name] = &GlobalInfo{G: g, Name: name, Kind: "other"}
	}
	for _, f := range pkg.Syntax {
		for _, d := range f.Decls {
			gd, ok := d.(*ast.GenDecl)
			if !ok || gd.Tok != token.VAR {
				continue
			}
			for _, sp := range gd.Specs {
				vs := sp.(*ast.ValueSpec)
				for i, id := range vs.Names {
					gi := e.globals[id.Name]
					if gi == nil || i >= len(vs.Values) {
						continue
					}
					e.readInit(pkg, gi, vs.Values[i])
				}
			}
		}
	}
	// writers
	for key, fn := range e.funcs {
		for _, b := range fn.Blocks {
			for _, in := range b.Instrs {
				st, ok := in.(*ssa.Store)
				if !ok {
					continue
				}
				if g := rootGlobal(st.Addr); g != nil {
					if gi := e.globals[g.Name()]; gi != nil {
						gi.Written = append(gi.Written, key)
					}
				}
			}
		}
	}
	// stores in package initialisers other than the variable's own initial value are ignored
}

func rootGlobal(v ssa.Value) *ssa.Global {
	for {
		switch x := v.(type) {
		case *ssa.Global:
			return x
		case *ssa.IndexAddr:
			v = x.X
		case *ssa.FieldAddr:
			v = x.X
		default:
			return nil
		}
	}
}

func (e *Engine) readInit(pkg *packages.Package, gi *GlobalInfo, x ast.Expr) {
	tv := pkg.TypesInfo.Types[x]
	if tv.Value != nil {
		if v, ok := constant.Val(constant.ToInt(tv.Value)).(interface{ String() string }); ok {
			_ = v
		}
		if bi := constToBig(tv.Value); bi != nil {
			gi.Kind = "scalar"
			gi.Init = mkInt(bi)
		}
		return
	}
	cl, ok := x.(*ast.CompositeLit)
	if !ok {
		if _, isPtr := tv.Type.Underlying().(*types.Pointer); isPtr {
			gi.Kind = "ptr"
		}
		return
	}
	at, ok := tv.Type.Underlying().(*types.Array)
	if !ok {
		return
	}
	switch et := at.Elem().Underlying().(type) {
	case *types.Basic:
		for _, el := range cl.Elts {
			v := constToBig(pkg.TypesInfo.Types[el].Value)
			if v == nil {
				gi.Ints = nil
				return
			}
			gi.Ints = append(gi.Ints, mkInt(v))
		}
		gi.Kind = "table"
	case *types.Struct:
		gi.Fields = map[string][]*Term{}
		for _, el := range cl.Elts {
			sl, ok := el.(*ast.CompositeLit)
			if !ok || len(sl.Elts) != et.NumFields() {
				gi.Fields = nil
				return
			}
			for i, fe := range sl.Elts {
				v := constToBig(pkg.TypesInfo.Types[fe].Value)
				if v == nil {
					gi.Fields = nil
					return
				}
				n := et.Field(i).Name()
				gi.Fields[n] = append(gi.Fields[n], mkInt(v))
			}
		}
		gi.Kind = "structtable"
	}
}

func constToBig(v constant.Value) *bigInt {
	if v == nil {
		return nil
	}
	if v.Kind() == constant.Bool {
		if constant.BoolVal(v) {
			return bigOne
		}
		return newBig(0)
	}
	iv := constant.ToInt(v)
	if iv.Kind() != constant.Int {
		return nil
	}
	r, ok := newBig(0).SetString(iv.ExactString(), 10)
	if !ok {
		return nil
	}
	return r
}

// lookupConst resolves a package-level constant by name (optionally pkg-qualified).
func (e *Engine) lookupConst(pkg *types.Package, name string) (*bigInt, types.Type, bool) {
	obj := pkg.Scope().Lookup(name)
	c, ok := obj.(*types.Const)
	if !ok {
		return nil, nil, false
	}
	v := constToBig(c.Val())
	if v == nil {
		return nil, nil, false
	}
	return v, c.Type(), true
}

func (e *Engine) contractFor(fn *ssa.Function) *Contract {
	if fn == nil {
		return nil
	}
	if fn.Pkg != nil && e.spkgs[fn.Pkg.Pkg.Name()] == fn.Pkg {
		return e.cs.Funcs[funcKey(fn)]
	}
	return e.cs.Funcs[externKey(fn)]
}

func posStr(fset *token.FileSet, p token.Pos) string {
	if !p.IsValid() {
		return "-"
	}
	pp := fset.Position(p)
	return fmt.Sprintf("%s:%d", filepath.Base(pp.Filename), pp.Line)
}

func shortFile(s string) string { return strings.TrimPrefix(s, "/repo/") }
