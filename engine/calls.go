package main

import (
	"fmt"
	"go/types"
	"strings"

	"golang.org/x/tools/go/ssa"
)

type callK func(s *State, res Val)

func tupleOrSingle(vs []Val, t types.Type) Val {
	if tt, ok := t.(*types.Tuple); ok {
		if tt.Len() == 0 {
			return Val{K: VUnit}
		}
		if tt.Len() == 1 {
			return vs[0]
		}
		return Val{K: VTuple, Elems: vs, Typ: t}
	}
	if len(vs) == 0 {
		return Val{K: VUnit}
	}
	return vs[0]
}

func (fc *FnCtx) execCall(s *State, fn *ssa.Function, x *ssa.Call, k callK, rk retK) {
	cc := x.Common()
	var args []Val
	if cc.IsInvoke() {
		recv := fc.val(s, cc.Value)
		args = append(args, recv)
	}
	for _, a := range cc.Args {
		args = append(args, fc.val(s, a))
	}
	if b, ok := cc.Value.(*ssa.Builtin); ok {
		r := fc.builtin(s, x, b.Name(), args)
		if fc.ct != nil && s.depth == 0 {
			site := fc.callOrd[x]
			for _, h := range fc.ct.Hints {
				if h.Where != "after:"+site {
					continue
				}
				henv := &Env{fc: fc, names: map[string]Val{}, cellsAt: s, heap: s.heap, oldNames: fc.entry, oldHeap: fc.oldHeap, pos: x.Pos(),
					nalloc0: fc.nalloc0, nobj0: fc.nobj0, bound: map[string]Val{"result": r}}
				fc.applyHint(s, henv, h, "after "+site)
			}
		}
		k(s, r)
		return
	}
	if cc.IsInvoke() {
		key := "iface:" + typeName(cc.Value.Type()) + "." + cc.Method.Name()
		ct := fc.eng.cs.Funcs[key]
		if ct == nil {
			panic(unsupported("interface call without extern contract: " + key))
		}
		fc.applyContract(s, x, ct, nil, cc.Signature(), key, args, k, rk)
		return
	}
	callee := cc.StaticCallee()
	if callee == nil {
		panic(unsupported("dynamic call " + x.String()))
	}
	full := callee.String()
	if r, ok := fc.intrinsic(s, x, full, args); ok {
		k(s, r)
		return
	}
	ct := fc.eng.contractFor(callee)
	if ct == nil {
		panic(unsupported("call to " + full + " which has no contract"))
	}
	if ct.Inline {
		fc.inlineCall(s, x, callee, args, k, rk)
		return
	}
	fc.applyContract(s, x, ct, callee, callee.Signature, funcKey(callee), args, k, rk)
}

// ---------- inlining small helpers ----------

func (fc *FnCtx) inlineCall(s *State, x *ssa.Call, callee *ssa.Function, args []Val, k callK, rk retK) {
	if len(callee.Blocks) == 0 {
		panic(unsupported("inline of body-less function " + callee.Name()))
	}
	if s.depth > 6 {
		panic(unsupported("inline depth"))
	}
	for _, b := range callee.Blocks {
		for _, sc := range b.Succs {
			if sc.Dominates(b) {
				panic(unsupported("loop in inlined function " + callee.Name()))
			}
		}
	}
	if _, done := fc.numbered[callee]; !done {
		fc.numbered[callee] = true
		fc.numberInstrs(callee, "inl:"+callee.Name()+".")
	}
	for i, p := range callee.Params {
		s.regs[p] = args[i]
	}
	s.depth++
	base := s.clone()
	type inlRet struct {
		s *State
		v Val
	}
	var rets []inlRet
	fc.execBlock(s, callee, callee.Blocks[0], 0, func(s2 *State, rs []Val) {
		s2.depth--
		rets = append(rets, inlRet{s2, tupleOrSingle(rs, callee.Signature.Results())})
	})
	// two returns that differ only by one branch condition (if c {return a}; return b):
	// continue once with ite(c, a, b) instead of forking the rest of the caller
	if len(rets) == 2 && !fc.noMerge {
		A, B := rets[0], rets[1]
		n0 := len(base.pc)
		if len(A.s.pc) == n0+1 && len(B.s.pc) == n0+1 {
			c := A.s.pc[n0]
			if B.s.pc[n0] == mkNot(c) || mkNot(B.s.pc[n0]) == c {
				base.depth--
				A.s.depth++ // mergeStates compares depths of A and B only
				A.s.depth--
				if m := fc.mergeStates(base, c, A.s, B.s); m != nil {
					if v, ok := iteVal(c, A.v, B.v); ok {
						m.trace = append(base.trace[:len(base.trace):len(base.trace)], "inl-merge "+callee.Name())
						k(m, v)
						return
					}
				}
			}
		}
	}
	for _, r := range rets {
		k(r.s, r.v)
	}
}

// ---------- builtins ----------

func (fc *FnCtx) builtin(s *State, x *ssa.Call, name string, args []Val) Val {
	switch name {
	case "len":
		if args[0].K == VSlice {
			return intVal(args[0].Len, types.Typ[types.Int])
		}
		if args[0].K == VOpaque { // string
			l := app("strlen", SInt, args[0].T)
			s.assume(mkAnd(mkLe(mkI(0), l), mkLe(l, mkInt(pow2(48)))))
			return intVal(l, types.Typ[types.Int])
		}
	case "cap":
		if args[0].K == VSlice {
			return intVal(args[0].Cap, types.Typ[types.Int])
		}
	case "copy":
		return fc.builtinCopy(s, x, args[0], args[1])
	case "append":
		return fc.builtinAppend(s, x, args[0], args[1])
	case "recover":
		if s.panicVal != nil {
			s.recovered = true
			return *s.panicVal
		}
		return opaqueVal(mkI(0), x.Type())
	case "ssa:deferstack":
		return Val{K: VOpaque, T: mkI(0), Typ: x.Type()}
	case "min", "max":
		if len(args) == 2 && args[0].K == VInt {
			c := mkLe(args[0].T, args[1].T)
			if name == "max" {
				c = mkGe(args[0].T, args[1].T)
			}
			return intVal(mkIte(c, args[0].T, args[1].T), x.Type())
		}
	}
	panic(unsupported("builtin " + name))
}

// copy(dst, src): memmove semantics on word memory.
func (fc *FnCtx) builtinCopy(s *State, x *ssa.Call, dst, src Val) Val {
	if dst.K != VSlice || src.K != VSlice {
		panic(unsupported("copy with non-slice operands"))
	}
	n := mkIte(mkLe(dst.Len, src.Len), dst.Len, src.Len)
	nc := fc.fresh("ncopy", SInt)
	s.assume(mkEq(nc, n))
	// frame check for the destination range
	k := fc.fresh("kc", SInt)
	s2 := s.clone()
	s2.assume(mkAnd(mkLe(dst.Off, k), mkLt(k, mkAdd(dst.Off, nc))))
	fc.checkMemWrite(s2, x, dst.Arr, k, k, "copy")
	mem := fc.heapCur(s, "Mem", SMem)
	oldDst := mkSelect(mem, dst.Arr)
	oldSrc := mkSelect(mem, src.Arr)
	newDst := fc.fresh("mcopy", SArr)
	s.heap["Mem"] = mkStore(mem, dst.Arr, newDst)
	// forall j: dst.off <= j < dst.off+n ==> new[j] = oldSrc[src.off + j - dst.off]; else new[j] = oldDst[j]
	j := mkConst("?j", SInt)
	in := mkAnd(mkLe(dst.Off, j), mkLt(j, mkAdd(dst.Off, nc)))
	body := mkAnd(
		mkImp(in, mkEq(mkSelect(newDst, j), mkSelect(oldSrc, mkAdd(src.Off, mkSub(j, dst.Off))))),
		mkImp(mkNot(in), mkEq(mkSelect(newDst, j), mkSelect(oldDst, j))))
	s.assume(mkForall("?j", body))
	fc.registerFrame(newDst, oldDst, dst.Off, mkAdd(dst.Off, nc), dst.Arr)
	// value-level consequence (lemma V_copy: equal words give equal values), used by callers
	s.assume(mkEq(mkV(newDst, dst.Off, mkAdd(dst.Off, nc)), mkV(oldSrc, src.Off, mkAdd(src.Off, nc))))
	fc.usedIntrinsics["builtin copy (memmove; with the value consequence V(dst[:n]) = V(src[:n]))"] = true
	return intVal(nc, types.Typ[types.Int])
}

func (fc *FnCtx) builtinAppend(s *State, x *ssa.Call, a, b Val) Val {
	// append is only used on byte slices in code outside the arithmetic core: model the
	// result as a fresh slice of the right length with unknown contents.
	if a.K != VSlice {
		panic(unsupported("append on non-slice"))
	}
	var extra *Term
	switch b.K {
	case VSlice:
		extra = b.Len
	case VOpaque:
		extra = app("strlen", SInt, b.T)
		s.assume(mkLe(mkI(0), extra))
	default:
		panic(unsupported("append operand"))
	}
	arr := fc.allocArray(s)
	s.heap["Mem"] = mkStore(fc.heapCur(s, "Mem", SMem), arr, fc.fresh("mappend", SArr))
	ln := mkAdd(a.Len, extra)
	cp := fc.fresh("cap", SInt)
	s.assume(mkAnd(mkLe(ln, cp), mkLe(cp, mkInt(pow2(48)))))
	fc.usedIntrinsics["builtin append (fresh array, contents not modelled)"] = true
	return sliceVal(arr, mkI(0), ln, cp, x.Type())
}

// ---------- stdlib intrinsics with built-in contracts ----------

func (fc *FnCtx) intrinsic(s *State, x *ssa.Call, full string, args []Val) (Val, bool) {
	u64 := ityp{64, false}
	W := mkInt(two64)
	tup := func(typ types.Type, vs ...*Term) Val {
		tt := typ.(*types.Tuple)
		v := Val{K: VTuple, Typ: typ}
		for i, t := range vs {
			v.Elems = append(v.Elems, intVal(t, tt.At(i).Type()))
		}
		return v
	}
	in := ssa.Instruction(x)
	switch full {
	case "math/bits.Mul", "math/bits.Mul64":
		fc.usedIntrinsics[full] = true
		p := mkMul(args[0].T, args[1].T)
		// name the product so that nonlinear reasoning sees one term
		pv := fc.fresh("prod", SInt)
		s.assume(mkEq(pv, p))
		hi := fc.fresh("hi", SInt)
		lo := fc.fresh("lo", SInt)
		s.assume(mkAnd(mkEq(pv, mkAdd(mkMul(hi, W), lo)), rangeOf(u64, lo), rangeOf(u64, hi)))
		return tup(x.Type(), hi, lo), true
	case "math/bits.Add", "math/bits.Add64":
		fc.usedIntrinsics[full] = true
		sum := mkAdd(args[0].T, args[1].T, args[2].T)
		c := fc.fresh("carry", SInt)
		r := fc.fresh("sum", SInt)
		s.assume(mkAnd(mkEq(sum, mkAdd(mkMul(c, W), r)), rangeOf(u64, r), mkLe(mkI(0), c), mkLe(c, mkI(2))))
		return tup(x.Type(), r, c), true
	case "math/bits.Sub", "math/bits.Sub64":
		fc.usedIntrinsics[full] = true
		d := mkSub(mkSub(args[0].T, args[1].T), args[2].T)
		b := fc.fresh("borrow", SInt)
		r := fc.fresh("diff", SInt)
		s.assume(mkAnd(mkEq(mkAdd(d, mkMul(b, W)), r), rangeOf(u64, r), mkLe(mkI(0), b), mkLe(b, mkI(2))))
		return tup(x.Type(), r, b), true
	case "math/bits.Div", "math/bits.Div64":
		fc.usedIntrinsics[full] = true
		hi, lo, y := args[0].T, args[1].T, args[2].T
		name := fmt.Sprintf("%s.%s.requires", fc.key, fc.callOrd[in])
		fc.oblige(s, name+"[nonzero]", "safety", nil, "bits.Div: divisor != 0", mkNot(mkEq(y, mkI(0))), instrPos(fc, in))
		fc.oblige(s, name+"[overflow]", "safety", nil, "bits.Div: hi < y (quotient fits)", mkLt(hi, y), instrPos(fc, in))
		s.assume(mkAnd(mkNot(mkEq(y, mkI(0))), mkLt(hi, y)))
		q := fc.fresh("quo", SInt)
		r := fc.fresh("rem", SInt)
		n := mkAdd(mkMul(hi, W), lo)
		s.assume(mkAnd(mkEq(n, mkAdd(mkMul(q, y), r)), mkLe(mkI(0), r), mkLt(r, y), rangeOf(u64, q)))
		return tup(x.Type(), q, r), true
	case "math/bits.Len", "math/bits.Len64":
		fc.usedIntrinsics[full] = true
		n := fc.fresh("blen", SInt)
		xv := args[0].T
		s.assume(mkAnd(mkLe(mkI(0), n), mkLe(n, mkI(64)), mkEq(mkEq(xv, mkI(0)), mkEq(n, mkI(0)))))
		// 2^(n-1) <= x < 2^n for n >= 1, as a case table
		var cs []*Term
		for i := 1; i <= 64; i++ {
			cs = append(cs, mkImp(mkEq(n, mkI(int64(i))), mkAnd(mkLe(mkInt(pow2(uint(i-1))), xv), mkLt(xv, mkInt(pow2(uint(i)))))))
		}
		s.assume(mkAnd(cs...))
		return intVal(n, types.Typ[types.Int]), true
	case "math/bits.LeadingZeros", "math/bits.LeadingZeros64":
		fc.usedIntrinsics[full] = true
		n := fc.fresh("blen", SInt)
		xv := args[0].T
		s.assume(mkAnd(mkLe(mkI(0), n), mkLe(n, mkI(64)), mkEq(mkEq(xv, mkI(0)), mkEq(n, mkI(0)))))
		var cs []*Term
		for i := 1; i <= 64; i++ {
			cs = append(cs, mkImp(mkEq(n, mkI(int64(i))), mkAnd(mkLe(mkInt(pow2(uint(i-1))), xv), mkLt(xv, mkInt(pow2(uint(i)))))))
		}
		s.assume(mkAnd(cs...))
		return intVal(mkSub(mkI(64), n), types.Typ[types.Int]), true
	case "(encoding/binary.bigEndian).Uint64", "(encoding/binary.bigEndian).Uint32":
		fc.usedIntrinsics[full] = true
		nb := int64(8)
		if strings.HasSuffix(full, "32") {
			nb = 4
		}
		b := args[1]
		name := fmt.Sprintf("%s.%s.requires[len]", fc.key, fc.callOrd[in])
		fc.oblige(s, name, "safety", nil, fmt.Sprintf("binary.BigEndian: len(b) >= %d", nb), mkGe(b.Len, mkI(nb)), instrPos(fc, in))
		s.assume(mkGe(b.Len, mkI(nb)))
		v := mkI(0)
		for i := int64(0); i < nb; i++ {
			by := fc.memSel(s.heap, b.Arr, mkAdd(b.Off, mkI(i)))
			s.assume(mkAnd(mkLe(mkI(0), by), mkLt(by, mkI(256))))
			v = mkAdd(mkMul(v, mkI(256)), by)
		}
		tt := x.Type()
		return intVal(v, tt), true
	case "(encoding/binary.bigEndian).PutUint32":
		fc.usedIntrinsics[full] = true
		b := args[1]
		name := fmt.Sprintf("%s.%s.requires[len]", fc.key, fc.callOrd[in])
		fc.oblige(s, name, "safety", nil, "binary.BigEndian.PutUint32: len(b) >= 4", mkGe(b.Len, mkI(4)), instrPos(fc, in))
		s.assume(mkGe(b.Len, mkI(4)))
		mem := fc.heapCur(s, "Mem", SMem)
		inner := mkSelect(mem, b.Arr)
		v := args[2].T
		for i := int64(0); i < 4; i++ {
			idx := mkAdd(b.Off, mkI(i))
			fc.checkMemWrite(s, x, b.Arr, idx, idx, "PutUint32")
			inner = mkStore(inner, idx, mkMod(mkDiv(v, mkInt(pow2(uint(8*(3-i))))), mkI(256)))
		}
		s.heap["Mem"] = mkStore(mem, b.Arr, inner)
		return Val{K: VUnit}, true
	case "math.IsNaN":
		fc.usedIntrinsics["math.IsNaN/IsInf/Signbit (uninterpreted predicates)"] = true
		return boolVal(app("f_isnan", SBool, args[0].T)), true
	case "math.IsInf":
		fc.usedIntrinsics["math.IsNaN/IsInf/Signbit (uninterpreted predicates)"] = true
		r := app("f_isinf", SBool, args[0].T)
		s.assume(mkImp(r, mkNot(app("f_isnan", SBool, args[0].T))))
		return boolVal(r), true
	case "math.Signbit":
		fc.usedIntrinsics["math.IsNaN/IsInf/Signbit (uninterpreted predicates)"] = true
		return boolVal(app("f_signbit", SBool, args[0].T)), true
	case "math.Ceil", "math.Sqrt", "math.Float64bits", "math.Frexp":
		fc.usedIntrinsics[full+" (uninterpreted)"] = true
		if full == "math.Frexp" {
			v := Val{K: VTuple, Typ: x.Type()}
			v.Elems = append(v.Elems, opaqueVal(app("frexp_m", SInt, args[0].T), types.Typ[types.Float64]))
			e := intVal(app("frexp_e", SInt, args[0].T), types.Typ[types.Int])
			s.assume(mkAnd(mkLe(mkI(-1100), e.T), mkLe(e.T, mkI(1100))))
			v.Elems = append(v.Elems, e)
			return v, true
		}
		if full == "math.Float64bits" {
			r := intVal(app("f64bits", SInt, args[0].T), types.Typ[types.Uint64])
			s.assume(rangeOf(u64, r.T))
			return r, true
		}
		return opaqueVal(app("f_"+mangle(full), SInt, args[0].T), types.Typ[types.Float64]), true
	}
	return Val{}, false
}

// ---------- contract application ----------

func paramNames(callee *ssa.Function, sig *types.Signature, hasRecv bool) []string {
	var names []string
	if callee != nil && len(callee.Params) > 0 {
		for _, p := range callee.Params {
			names = append(names, p.Name())
		}
		return names
	}
	if sig.Recv() != nil {
		names = append(names, sig.Recv().Name())
	} else if hasRecv {
		names = append(names, "recv")
	}
	for i := 0; i < sig.Params().Len(); i++ {
		names = append(names, sig.Params().At(i).Name())
	}
	return names
}

func (fc *FnCtx) applyContract(s *State, x *ssa.Call, ct *Contract, callee *ssa.Function, sig *types.Signature, ckey string, args []Val, k callK, rk retK) {
	in := ssa.Instruction(x)
	site := fc.callOrd[in]
	names := paramNames(callee, sig, x.Common().IsInvoke())
	resSig := sig
	if ct.SameAs != "" {
		// the clauses were written for the twin function: use its parameter and result names
		if twin := fc.eng.funcs[ct.SameAs]; twin != nil {
			names = paramNames(twin, twin.Signature, false)
			resSig = twin.Signature
		}
	}
	if ct.Extern && len(names) != len(args) {
		// extern header may name parameters itself: func(x, y) in the header
		names = externParamNames(ct.Header, len(args))
	}
	if len(names) != len(args) {
		panic(unsupported(fmt.Sprintf("arity mismatch calling %s: %d names, %d args", ckey, len(names), len(args))))
	}
	if ct.Status != "proved" {
		fc.usedAssumed[ckey+" ("+ct.Status+")"] = true
	}
	fc.calledKeys[ckey] = true
	bind := map[string]Val{}
	for i, n := range names {
		if n != "" && n != "_" {
			bind[n] = args[i]
		}
	}
	pkg := fc.pkg
	if callee != nil && callee.Pkg != nil {
		pkg = callee.Pkg.Pkg
	}
	env := &Env{fc: fc, names: bind, heap: s.heap, oldNames: bind, oldHeap: s.heap, pkgOverride: pkg}
	// 0. hints of the caller anchored right before this call; the arguments are arg0, arg1, ...
	if fc.ct != nil && s.depth == 0 {
		for _, h := range fc.ct.Hints {
			if h.Where != "before:"+site {
				continue
			}
			henv := &Env{fc: fc, names: map[string]Val{}, cellsAt: s, heap: s.heap, oldNames: fc.entry, oldHeap: fc.oldHeap, pos: x.Pos(),
				nalloc0: fc.nalloc0, nobj0: fc.nobj0, bound: map[string]Val{}}
			for i, a := range args {
				henv.bound[fmt.Sprintf("arg%d", i)] = a
			}
			fc.applyHint(s, henv, h, "before "+site)
		}
	}
	// 1. preconditions
	for _, r := range ct.Requires {
		g := fc.evalSpecBool(env, r.E)
		fc.oblige(s, fmt.Sprintf("%s.call:%s.requires[%s]", fc.key, site, r.Label), "requires", r.Props,
			fmt.Sprintf("precondition of %s: %s", ckey, r.Text), g, instrPos(fc, in))
		s.assume(g)
	}
	// 2. havoc per modifies
	old := s.snapshotHeap()
	envOld := &Env{fc: fc, names: bind, heap: old, oldNames: bind, oldHeap: old, pkgOverride: pkg}
	fr := &Frame{NAlloc0: old["nalloc"], NObj0: old["nobj"], Declared: true}
	for _, m := range ct.Modifies {
		fc.addFrameEntry(fr, envOld, m)
	}
	fc.checkCalleeFrame(s, x, fr, ckey)
	fc.havocFrame(s, fr, old)
	if !ct.Pure {
		na := fc.fresh("nalloc", SInt)
		s.assume(mkGe(na, old["nalloc"]))
		s.heap["nalloc"] = na
		no := fc.fresh("nobj", SInt)
		s.assume(mkGe(no, old["nobj"]))
		s.heap["nobj"] = no
	}
	// 3. exceptional path
	if len(ct.Panics) > 0 {
		var cs []*Term
		for _, p := range ct.Panics {
			cs = append(cs, fc.evalSpecBool(envOld, p.E))
		}
		cond := mkOr(cs...)
		if !cond.isFalse() {
			ex := s.clone()
			ex.assume(cond)
			exEnv := &Env{fc: fc, names: bind, heap: ex.heap, oldNames: bind, oldHeap: old, nalloc0: old["nalloc"], nobj0: old["nobj"], pkgOverride: pkg}
			for _, c := range ct.OnPanic {
				ex.assume(fc.evalSpecBool(exEnv, c.E))
			}
			ex.trace = append(ex.trace, "panic in "+site)
			pv := Val{K: VOpaque, T: fc.fresh("panicval", SInt), Dyn: "ErrNaN"}
			ex.assume(mkLt(mkI(0), pv.T))
			ex.assume(mkEq(app("dyntype", SInt, pv.T), mkI(fc.eng.typeCode("ErrNaN"))))
			fc.propagatePanic(ex, pv, "callee "+ckey, rk)
		}
		s.assume(mkNot(cond))
	}
	// 3b. deferred handlers must not swallow panics that are not ErrNaN: let the callee
	// hypothetically panic with some other value and see what the handlers do with it
	if len(s.defers) > 0 && !ct.Pure {
		ex := s.clone()
		ex.ghostOther = true
		ex.trace = append(ex.trace, "hypothetical non-ErrNaN panic in "+site)
		pv := Val{K: VOpaque, T: fc.fresh("otherpanic", SInt), Dyn: "other"}
		ex.assume(mkLt(mkI(0), pv.T))
		ex.assume(mkNot(mkEq(app("dyntype", SInt, pv.T), mkI(fc.eng.typeCode("ErrNaN")))))
		fc.propagatePanic(ex, pv, "hypothetical panic in "+ckey, func(s2 *State, rets []Val) {
			fc.npaths++
			fc.oblige(s2, fc.key+".handler.other", "handler", []string{"C19"}, "a panic whose value is not an ErrNaN must not be swallowed by the deferred handler", tFalse, "return after recover")
		})
	}
	// 4. results
	var rets []Val
	res := sig.Results()
	post := &Env{fc: fc, names: map[string]Val{}, heap: s.heap, oldNames: bind, oldHeap: old, nalloc0: old["nalloc"], nobj0: old["nobj"], pkgOverride: pkg}
	for n, v := range bind {
		post.names[n] = v
	}
	for i := 0; i < res.Len(); i++ {
		rv := fc.freshVal(fmt.Sprintf("r_%s_%d", mangle(site), i), res.At(i).Type())
		s.assume(fc.typeAssume(rv, s.heap["nalloc"], s.heap["nobj"]))
		rets = append(rets, rv)
		if n := resSig.Results().At(i).Name(); n != "" && n != "_" {
			post.names[n] = rv
		}
		post.names[fmt.Sprintf("result%d", i)] = rv
		if i == 0 {
			post.names["result"] = rv
		}
	}
	calleeGhosts := map[string]Val{}
	for _, g := range ct.Ghosts {
		gv := mathInt(fc.fresh("g_"+mangle(site)+"_"+g, SInt))
		post.names[g] = gv
		calleeGhosts["ghost_"+g] = gv
	}
	for _, c := range ct.Ensures {
		if c.Assumed {
			fc.usedAssumed[fmt.Sprintf("%s.ensures[%s] (clause assumed)", ckey, c.Label)] = true
		}
		s.assume(fc.evalSpecBool(post, c.E))
	}
	result := tupleOrSingle(rets, res)
	states := []*State{s}
	if fc.ct != nil {
		for _, h := range fc.ct.Hints {
			if h.Where != "after:"+site {
				continue
			}
			var next []*State
			for _, st := range states {
				henv := &Env{fc: fc, names: map[string]Val{}, cellsAt: st, heap: st.heap, oldNames: fc.entry, oldHeap: fc.oldHeap, pos: x.Pos(),
					nalloc0: fc.nalloc0, nobj0: fc.nobj0, bound: map[string]Val{"result": result}, preHeap: old}
				if result.K == VTuple {
					for i, el := range result.Elems {
						henv.bound[fmt.Sprintf("result%d", i)] = el
					}
				}
				for gn, gv := range calleeGhosts {
					henv.bound[gn] = gv
				}
				if h.E.Kind == "call" && h.E.Name == "cases" && len(h.E.Args) == 3 {
					// cases(result, lo, hi): case split on the call's (integer) result
					lo, hi := h.E.Args[1].Val, h.E.Args[2].Val
					if h.E.Args[0].Kind != "ident" || h.E.Args[0].Name != "result" || lo == nil || hi == nil || result.K != VInt {
						panic(unsupported("cases(result, lo, hi) needs literal bounds and an integer result"))
					}
					fc.oblige(st, fmt.Sprintf("%s.cases@%s", fc.key, site), "split", nil, h.Text, mkAnd(mkLe(mkInt(lo), result.T), mkLe(result.T, mkInt(hi))), "after "+site)
					for kv := lo.Int64(); kv <= hi.Int64(); kv++ {
						c := st.clone()
						c.assume(mkEq(result.T, mkI(kv)))
						c.trace = append(c.trace, fmt.Sprintf("case %s=%d", site, kv))
						c.caseLit = mkI(kv)
						next = append(next, c)
					}
					continue
				}
				fc.applyHint(st, henv, h, "after "+site)
				next = append(next, st)
			}
			states = next
		}
	}
	for _, st := range states {
		r := result
		if st.caseLit != nil {
			r = intVal(st.caseLit, result.Typ)
			st.caseLit = nil
		}
		k(st, r)
	}
}

func externParamNames(header string, n int) []string {
	i := strings.LastIndex(header, "(")
	j := strings.LastIndex(header, ")")
	if i < 0 || j < i {
		return nil
	}
	var out []string
	for _, p := range strings.Split(header[i+1:j], ",") {
		p = strings.TrimSpace(p)
		if p == "" {
			continue
		}
		out = append(out, strings.Fields(p)[0])
	}
	return out
}

// addFrameEntry interprets one `modifies` item in env.
func (fc *FnCtx) addFrameEntry(fr *Frame, env *Env, m *Expr) {
	switch m.Kind {
	case "call":
		switch m.Name {
		case "mem", "memcap":
			v := fc.evalSpec(env, m.Args[0])
			if v.K != VSlice {
				panic(unsupported("modifies mem() of a non-slice: " + m.String()))
			}
			hi := mkAdd(v.Off, v.Len)
			if m.Name == "memcap" {
				hi = mkAdd(v.Off, v.Cap)
			}
			fr.Regions = append(fr.Regions, Region{v.Arr, v.Off, hi})
			return
		case "memall":
			fr.AllMem = true
			return
		case "fields":
			v := fc.evalSpec(env, m.Args[0])
			_, sname, _ := structOf(v.Typ)
			fr.Fields = append(fr.Fields, frameField{v.T, sname, ""})
			return
		}
	case "sel":
		base := fc.evalSpec(env, m.Args[0])
		if base.K == VPtr {
			_, sname, ok := structOf(base.Typ)
			if !ok {
				break
			}
			fr.Fields = append(fr.Fields, frameField{base.T, sname, m.Name})
			return
		}
	}
	panic(unsupported("modifies item " + m.String()))
}

// checkCalleeFrame: everything the callee may write must be writable by the caller.
func (fc *FnCtx) checkCalleeFrame(s *State, x *ssa.Call, callee *Frame, ckey string) {
	for _, f := range callee.Fields {
		st := fc.structTypes[f.SName]
		if st == nil {
			panic(unsupported("unknown struct in modifies: " + f.SName))
		}
		for i := 0; i < st.NumFields(); i++ {
			if f.Field == "" || f.Field == st.Field(i).Name() {
				fc.checkFieldWrite(s, x, f.Addr, f.SName, st.Field(i).Name())
			}
		}
	}
	for _, r := range callee.Regions {
		kk := fc.fresh("kf", SInt)
		s2 := s.clone()
		s2.assume(mkAnd(mkLe(r.Lo, kk), mkLt(kk, r.Hi)))
		fc.checkMemWrite(s2, x, r.Arr, kk, kk, "call "+ckey)
	}
	if callee.AllMem {
		for _, fr := range s.frames {
			if fr.Declared && !fr.AllMem {
				fc.oblige(s, fmt.Sprintf("%s.frame[call %s]", fc.key, ckey), "frame", []string{"C09", "C18"}, "callee may write all memory", tFalse, "")
			}
		}
	}
}

// havocFrame replaces everything in fr by fresh values, keeping the rest.
func (fc *FnCtx) havocFrame(s *State, fr *Frame, old map[string]*Term) {
	for _, f := range fr.Fields {
		st := fc.structTypes[f.SName]
		for i := 0; i < st.NumFields(); i++ {
			fl := st.Field(i)
			if f.Field != "" && f.Field != fl.Name() {
				continue
			}
			for key, srt := range heapKeysOfField(f.SName, fl) {
				es := SInt
				if srt == SArrB {
					es = SBool
				}
				nv := fc.fresh("hv_"+key, es)
				s.heap[key] = mkStore(fc.heapCur(s, key, srt), f.Addr, nv)
			}
			// the new field value is still a value of the field's type
			s.assume(fc.typeAssume(fc.loadFieldIn(s.heap, f.SName, fl, f.Addr), nil, nil))
		}
	}
	if fr.AllMem {
		s.heap["Mem"] = fc.fresh("Mem", SMem)
		return
	}
	for _, r := range fr.Regions {
		mem := fc.heapCur(s, "Mem", SMem)
		before := mkSelect(mem, r.Arr)
		nm := fc.fresh("m", SArr)
		s.heap["Mem"] = mkStore(mem, r.Arr, nm)
		j := mkConst("?j", SInt)
		body := mkImp(mkNot(mkAnd(mkLe(r.Lo, j), mkLt(j, r.Hi))), mkEq(mkSelect(nm, j), mkSelect(before, j)))
		s.assume(mkForall("?j", body))
		fc.registerFrame(nm, before, r.Lo, r.Hi, r.Arr)
	}
}

// ---------- panics ----------

func (fc *FnCtx) execPanic(s *State, fn *ssa.Function, x *ssa.Panic, rk retK) {
	v := fc.val(s, x.X)
	in := ssa.Instruction(x)
	if v.Dyn == "ErrNaN" {
		s.trace = append(s.trace, "panic ErrNaN @"+instrPos(fc, in))
		fc.propagatePanic(s, v, "panic(ErrNaN) at "+instrPos(fc, in), rk)
		return
	}
	if s.panicVal != nil && v.T != nil && eqTerm(v.T, s.panicVal.T) {
		// re-panic of the recovered value inside a deferred handler
		s.recovered = false
		fc.repanic(s, v)
		return
	}
	what := "explicit panic at " + instrPos(fc, in)
	if strings.HasPrefix(v.Dyn, "str:") {
		what = fmt.Sprintf("panic(%q) at %s", v.Dyn[4:], instrPos(fc, in))
	} else if v.Dyn == "string" {
		what = "panic(string) at " + instrPos(fc, in)
	}
	name := fmt.Sprintf("%s.panic#%d", fc.key, fc.ordinals[in])
	fc.atBadPanic(s, name, what, []string{"C04"})
}

// propagatePanic: the current function panics with value pv (an ErrNaN unless stated).
func (fc *FnCtx) propagatePanic(s *State, pv Val, why string, rk retK) {
	if len(s.defers) > 0 {
		fc.runDefersPanicking(s, pv, why, rk)
		return
	}
	if s.depth > 0 {
		// inside an inlined callee: the panic continues in the caller (no handlers modelled in between)
	}
	if pv.Dyn == "ErrNaN" {
		fc.atErrNaNPanic(s, why)
		return
	}
	fc.atOtherPanic(s, pv, why)
}
