package main

// SMT terms: a small tree with constructor-side simplification.  Integers are
// mathematical (sort Int); machine arithmetic is made explicit by wrap().

import (
	"fmt"
	"math/big"
	"sort"
	"strconv"
	"strings"
	"sync"
	"sync/atomic"
)

type Sort int

const (
	SInt  Sort = iota
	SBool      // Bool
	SArr       // (Array Int Int)
	SArrB      // (Array Int Bool)
	SMem       // (Array Int (Array Int Int))
)

func (s Sort) String() string {
	switch s {
	case SInt:
		return "Int"
	case SBool:
		return "Bool"
	case SArr:
		return "(Array Int Int)"
	case SArrB:
		return "(Array Int Bool)"
	case SMem:
		return "(Array Int (Array Int Int))"
	}
	return "?"
}

type Term struct {
	Op   string // "const" (free symbol), "int", "true", "false", or an SMT operator / function name
	Args []*Term
	Sort Sort
	Name string   // for Op=="const"
	Val  *big.Int // for Op=="int"
	strp atomic.Pointer[string] // cached rendering (terms are shared between goroutines)
	id   int64
}

var (
	internMu  sync.Mutex
	internTab = map[string]*Term{}
	internSeq int64
	tTrue     = intern(&Term{Op: "true", Sort: SBool})
	tFalse    = intern(&Term{Op: "false", Sort: SBool})
)

// intern returns the unique node for a term (hash-consing): structurally equal terms
// are pointer-equal, renderings and traversals are shared.
func intern(t *Term) *Term {
	var kb strings.Builder
	kb.WriteString(t.Op)
	kb.WriteByte('|')
	kb.WriteByte(byte('0' + t.Sort))
	kb.WriteByte('|')
	kb.WriteString(t.Name)
	if t.Val != nil {
		kb.WriteByte('#')
		kb.WriteString(t.Val.String())
	}
	for _, a := range t.Args {
		kb.WriteByte(',')
		kb.WriteString(strconv.FormatInt(a.id, 36))
	}
	k := kb.String()
	internMu.Lock()
	defer internMu.Unlock()
	if u, ok := internTab[k]; ok {
		return u
	}
	internSeq++
	t.id = internSeq
	internTab[k] = t
	return t
}

func mkForall(name string, body *Term) *Term {
	return intern(&Term{Op: "forall", Sort: SBool, Name: name, Args: []*Term{body}})
}

func mkInt(v *big.Int) *Term { return intern(&Term{Op: "int", Sort: SInt, Val: new(big.Int).Set(v)}) }
func mkI(v int64) *Term      { return intern(&Term{Op: "int", Sort: SInt, Val: big.NewInt(v)}) }
func mkBool(b bool) *Term {
	if b {
		return tTrue
	}
	return tFalse
}
func mkConst(name string, s Sort) *Term { return intern(&Term{Op: "const", Name: name, Sort: s}) }

func (t *Term) isInt() bool   { return t.Op == "int" }
func (t *Term) isTrue() bool  { return t.Op == "true" }
func (t *Term) isFalse() bool { return t.Op == "false" }

func (t *Term) String() string {
	if p := t.strp.Load(); p != nil {
		return *p
	}
	var s string
	switch t.Op {
	case "const":
		s = t.Name
	case "int":
		if t.Val.Sign() < 0 {
			s = "(- " + new(big.Int).Neg(t.Val).String() + ")"
		} else {
			s = t.Val.String()
		}
	case "true", "false":
		s = t.Op
	case "K0":
		s = "((as const (Array Int Int)) 0)"
	case "KF":
		s = "((as const (Array Int Bool)) false)"
	default:
		var b strings.Builder
		b.WriteByte('(')
		b.WriteString(t.Op)
		for _, a := range t.Args {
			b.WriteByte(' ')
			b.WriteString(a.String())
		}
		b.WriteByte(')')
		s = b.String()
	}
	t.strp.Store(&s)
	return s
}

func eqTerm(a, b *Term) bool { return a == b }

func app(op string, s Sort, args ...*Term) *Term {
	return intern(&Term{Op: op, Sort: s, Args: append([]*Term(nil), args...)})
}

var (
	two64  = new(big.Int).Lsh(big.NewInt(1), 64)
	two63  = new(big.Int).Lsh(big.NewInt(1), 63)
	two32  = new(big.Int).Lsh(big.NewInt(1), 32)
	two31  = new(big.Int).Lsh(big.NewInt(1), 31)
	bigOne = big.NewInt(1)
)

func pow2(k uint) *big.Int { return new(big.Int).Lsh(big.NewInt(1), k) }

// ---------- integer constructors ----------

// linear normal form of sums: coefficient per non-constant addend
type linSum struct {
	konst *big.Int
	keys  []string
	terms map[string]*Term
	coef  map[string]*big.Int
}

func newLin() *linSum {
	return &linSum{konst: new(big.Int), terms: map[string]*Term{}, coef: map[string]*big.Int{}}
}

func (l *linSum) add(t *Term, c *big.Int) {
	switch {
	case t.isInt():
		l.konst.Add(l.konst, new(big.Int).Mul(c, t.Val))
	case t.Op == "+":
		for _, a := range t.Args {
			l.add(a, c)
		}
	case t.Op == "-" && len(t.Args) == 1:
		l.add(t.Args[0], new(big.Int).Neg(c))
	case t.Op == "-" && len(t.Args) == 2:
		l.add(t.Args[0], c)
		l.add(t.Args[1], new(big.Int).Neg(c))
	case t.Op == "*" && len(t.Args) == 2 && t.Args[1].isInt():
		l.add(t.Args[0], new(big.Int).Mul(c, t.Args[1].Val))
	case t.Op == "*" && len(t.Args) == 2 && t.Args[0].isInt():
		l.add(t.Args[1], new(big.Int).Mul(c, t.Args[0].Val))
	default:
		k := t.String()
		if _, ok := l.coef[k]; !ok {
			l.keys = append(l.keys, k)
			l.terms[k] = t
			l.coef[k] = new(big.Int)
		}
		l.coef[k].Add(l.coef[k], c)
	}
}

func (l *linSum) term() *Term {
	var pos, neg []*Term
	for _, k := range l.keys {
		c := l.coef[k]
		if c.Sign() == 0 {
			continue
		}
		t := l.terms[k]
		ac := new(big.Int).Abs(c)
		if ac.Cmp(bigOne) != 0 {
			t = app("*", SInt, t, mkInt(ac))
		}
		if c.Sign() > 0 {
			pos = append(pos, t)
		} else {
			neg = append(neg, t)
		}
	}
	if l.konst.Sign() > 0 {
		pos = append(pos, mkInt(l.konst))
	} else if l.konst.Sign() < 0 {
		neg = append(neg, mkInt(new(big.Int).Neg(l.konst)))
	}
	var p *Term
	switch len(pos) {
	case 0:
		if len(neg) == 0 {
			return mkI(0)
		}
		p = nil
	case 1:
		p = pos[0]
	default:
		p = app("+", SInt, pos...)
	}
	if len(neg) == 0 {
		return p
	}
	var n *Term
	if len(neg) == 1 {
		n = neg[0]
	} else {
		n = app("+", SInt, neg...)
	}
	if p == nil {
		if n.isInt() {
			return mkInt(new(big.Int).Neg(n.Val))
		}
		return app("-", SInt, n)
	}
	return app("-", SInt, p, n)
}

func mkAdd(args ...*Term) *Term {
	l := newLin()
	for _, a := range args {
		l.add(a, bigOne)
	}
	return l.term()
}

func mkNeg(a *Term) *Term {
	l := newLin()
	l.add(a, big.NewInt(-1))
	return l.term()
}

func mkSub(a, b *Term) *Term {
	l := newLin()
	l.add(a, bigOne)
	l.add(b, big.NewInt(-1))
	return l.term()
}

func mkMul(a, b *Term) *Term {
	if a.isInt() && b.isInt() {
		return mkInt(new(big.Int).Mul(a.Val, b.Val))
	}
	if a.isInt() {
		a, b = b, a
	}
	if b.isInt() {
		if b.Val.Sign() == 0 {
			return mkI(0)
		}
		if b.Val.Cmp(bigOne) == 0 {
			return a
		}
		l := newLin()
		l.add(a, b.Val)
		return l.term()
	}
	return app("*", SInt, a, b)
}

// mkDiv / mkMod are SMT-LIB div/mod (Euclidean).  Callers ensure the divisor
// is positive where Go semantics matter.
func mkDiv(a, b *Term) *Term {
	if a.isInt() && b.isInt() && b.Val.Sign() != 0 {
		q, m := new(big.Int), new(big.Int)
		q.DivMod(a.Val, b.Val, m) // Euclidean
		return mkInt(q)
	}
	if b.isInt() && b.Val.Cmp(bigOne) == 0 {
		return a
	}
	return app("div", SInt, a, b)
}

func mkMod(a, b *Term) *Term {
	if a.isInt() && b.isInt() && b.Val.Sign() != 0 {
		q, m := new(big.Int), new(big.Int)
		q.DivMod(a.Val, b.Val, m)
		return mkInt(m)
	}
	if b.isInt() && b.Val.Cmp(bigOne) == 0 {
		return mkI(0)
	}
	// (mod (mod x m) m) = (mod x m)
	if a.Op == "mod" && eqTerm(a.Args[1], b) {
		return a
	}
	return app("mod", SInt, a, b)
}

// ---------- boolean constructors ----------

func mkNot(a *Term) *Term {
	switch a.Op {
	case "true":
		return tFalse
	case "false":
		return tTrue
	case "not":
		return a.Args[0]
	}
	return app("not", SBool, a)
}

func mkAnd(args ...*Term) *Term {
	var out []*Term
	for _, a := range args {
		if a == nil || a.isTrue() {
			continue
		}
		if a.isFalse() {
			return tFalse
		}
		if a.Op == "and" {
			out = append(out, a.Args...)
		} else {
			out = append(out, a)
		}
	}
	if len(out) == 0 {
		return tTrue
	}
	if len(out) == 1 {
		return out[0]
	}
	return app("and", SBool, out...)
}

func mkOr(args ...*Term) *Term {
	var out []*Term
	for _, a := range args {
		if a == nil || a.isFalse() {
			continue
		}
		if a.isTrue() {
			return tTrue
		}
		if a.Op == "or" {
			out = append(out, a.Args...)
		} else {
			out = append(out, a)
		}
	}
	if len(out) == 0 {
		return tFalse
	}
	if len(out) == 1 {
		return out[0]
	}
	return app("or", SBool, out...)
}

func mkImp(a, b *Term) *Term {
	if a.isTrue() {
		return b
	}
	if a.isFalse() || b.isTrue() {
		return tTrue
	}
	if b.isFalse() {
		return mkNot(a)
	}
	return app("=>", SBool, a, b)
}

func mkIte(c, a, b *Term) *Term {
	if c.isTrue() {
		return a
	}
	if c.isFalse() {
		return b
	}
	if eqTerm(a, b) {
		return a
	}
	if a.Sort == SBool {
		if a.isTrue() && b.isFalse() {
			return c
		}
		if a.isFalse() && b.isTrue() {
			return mkNot(c)
		}
	}
	return app("ite", a.Sort, c, a, b)
}

func mkEq(a, b *Term) *Term {
	if a.isInt() && b.isInt() {
		return mkBool(a.Val.Cmp(b.Val) == 0)
	}
	if eqTerm(a, b) {
		return tTrue
	}
	if a.Sort == SBool {
		if a.isTrue() {
			return b
		}
		if b.isTrue() {
			return a
		}
		if a.isFalse() {
			return mkNot(b)
		}
		if b.isFalse() {
			return mkNot(a)
		}
	}
	return app("=", SBool, a, b)
}

func mkCmp(op string, a, b *Term) *Term {
	if a.isInt() && b.isInt() {
		c := a.Val.Cmp(b.Val)
		switch op {
		case "<":
			return mkBool(c < 0)
		case "<=":
			return mkBool(c <= 0)
		case ">":
			return mkBool(c > 0)
		case ">=":
			return mkBool(c >= 0)
		}
	}
	return app(op, SBool, a, b)
}
func mkLt(a, b *Term) *Term { return mkCmp("<", a, b) }
func mkLe(a, b *Term) *Term { return mkCmp("<=", a, b) }
func mkGt(a, b *Term) *Term { return mkCmp(">", a, b) }
func mkGe(a, b *Term) *Term { return mkCmp(">=", a, b) }

// inRange: lo <= t < hi
func mkInRange(t *Term, lo, hi *Term) *Term { return mkAnd(mkLe(lo, t), mkLt(t, hi)) }

// ---------- arrays ----------

func elemSort(arr Sort) Sort {
	switch arr {
	case SArr:
		return SInt
	case SArrB:
		return SBool
	case SMem:
		return SArr
	}
	panic("elemSort")
}

func mkSelect(a, i *Term) *Term {
	// select over store with syntactically decidable index comparison
	for a.Op == "store" {
		j := a.Args[1]
		if eqTerm(i, j) {
			return a.Args[2]
		}
		if i.isInt() && j.isInt() { // distinct literals
			a = a.Args[0]
			continue
		}
		break
	}
	if a.Op == "K0" {
		return mkI(0)
	}
	if a.Op == "KF" {
		return tFalse
	}
	if a.Op == "ite" {
		return mkIte(a.Args[0], mkSelect(a.Args[1], i), mkSelect(a.Args[2], i))
	}
	if a.Op == "store" && a.Sort == SMem {
		// memory-level store with a non-literal index: expose the case split so
		// that value functions over the inner array can be pushed through.
		return mkIte(mkEq(i, a.Args[1]), a.Args[2], mkSelect(a.Args[0], i))
	}
	return app("select", elemSort(a.Sort), a, i)
}

func mkStore(a, i, v *Term) *Term {
	if a.Op == "store" && eqTerm(a.Args[1], i) {
		a = a.Args[0]
	}
	return app("store", a.Sort, a, i, v)
}

func mkK0() *Term { return intern(&Term{Op: "K0", Sort: SArr}) }
func mkKF() *Term { return intern(&Term{Op: "KF", Sort: SArrB}) }

// ---------- uninterpreted functions ----------

// mkV is the little-endian base-B value of words m[lo..hi).
func mkV(m, lo, hi *Term) *Term { return mkVb("V", specB10_19, m, lo, hi) }

// mkV2 is the same in base 2^64 (the binary kernels).
func mkV2(m, lo, hi *Term) *Term { return mkVb("V2", two64, m, lo, hi) }

func mkVb(op string, base *big.Int, m, lo, hi *Term) *Term {
	if eqTerm(lo, hi) {
		return mkI(0)
	}
	if lo.isInt() && hi.isInt() && lo.Val.IsInt64() && hi.Val.IsInt64() && hi.Val.Int64()-lo.Val.Int64() <= 256 && (m.Op == "store" || m.Op == "K0") {
		// concrete array (replay evaluation): compute the value
		acc := new(big.Int)
		ok := true
		for k := hi.Val.Int64() - 1; k >= lo.Val.Int64(); k-- {
			w := mkSelect(m, mkI(k))
			if !w.isInt() {
				ok = false
				break
			}
			acc.Mul(acc, base)
			acc.Add(acc, w.Val)
		}
		if ok {
			return mkInt(acc)
		}
	}
	if m.Op == "ite" {
		return mkIte(m.Args[0], mkVb(op, base, m.Args[1], lo, hi), mkVb(op, base, m.Args[2], lo, hi))
	}
	return app(op, SInt, m, lo, hi)
}

var specB10_19, _ = new(big.Int).SetString("10000000000000000000", 10)

func mkP(k *Term) *Term {
	if k.isInt() && k.Val.Sign() >= 0 && k.Val.Cmp(big.NewInt(64)) <= 0 {
		return mkInt(new(big.Int).Exp(specB10_19, k.Val, nil))
	}
	return app("P", SInt, k)
}

func mkP2(k *Term) *Term {
	if k.isInt() && k.Val.Sign() >= 0 && k.Val.Cmp(big.NewInt(64)) <= 0 {
		return mkInt(new(big.Int).Exp(two64, k.Val, nil))
	}
	return app("P2", SInt, k)
}

var bigTen = big.NewInt(10)

func mkP10(k *Term) *Term {
	if k.isInt() && k.Val.Sign() >= 0 && k.Val.Cmp(big.NewInt(80)) <= 0 {
		return mkInt(new(big.Int).Exp(bigTen, k.Val, nil))
	}
	return app("p10", SInt, k)
}

// ---------- machine arithmetic ----------

type ityp struct {
	bits   uint
	signed bool
}

func (t ityp) min() *big.Int {
	if !t.signed {
		return new(big.Int)
	}
	return new(big.Int).Neg(pow2(t.bits - 1))
}
func (t ityp) max() *big.Int {
	if !t.signed {
		return new(big.Int).Sub(pow2(t.bits), bigOne)
	}
	return new(big.Int).Sub(pow2(t.bits-1), bigOne)
}

func wrapBig(t ityp, v *big.Int) *big.Int {
	m := pow2(t.bits)
	r := new(big.Int).Mod(v, m)
	if t.signed && r.Cmp(pow2(t.bits-1)) >= 0 {
		r.Sub(r, m)
	}
	return r
}

// wrap reduces a mathematical integer to the value a machine integer of type t holds.
func wrap(t ityp, x *Term) *Term {
	if x.isInt() {
		return mkInt(wrapBig(t, x.Val))
	}
	m := mkInt(pow2(t.bits))
	if !t.signed {
		return mkMod(x, m)
	}
	h := mkInt(pow2(t.bits - 1))
	return mkSub(mkMod(mkAdd(x, h), m), h)
}

func rangeOf(t ityp, x *Term) *Term {
	return mkAnd(mkLe(mkInt(t.min()), x), mkLe(x, mkInt(t.max())))
}

// ---------- traversal ----------

// walk visits every distinct subterm once (terms are DAGs).
func walk(t *Term, f func(*Term) bool) {
	seen := map[*Term]bool{}
	var rec func(u *Term)
	rec = func(u *Term) {
		if seen[u] {
			return
		}
		seen[u] = true
		if !f(u) {
			return
		}
		for _, a := range u.Args {
			rec(a)
		}
	}
	rec(t)
}

// subst replaces free constants by terms.
func subst(t *Term, m map[string]*Term) *Term {
	if len(m) == 0 {
		return t
	}
	return rebuild(t, func(u *Term) *Term {
		if u.Op == "const" {
			if r, ok := m[u.Name]; ok {
				return r
			}
		}
		return nil
	})
}

// rebuild maps leaves through f (nil = keep) and re-applies the simplifying constructors.
func rebuild(t *Term, f func(*Term) *Term) *Term {
	memo := map[*Term]*Term{}
	var rec func(u *Term) *Term
	rec = func(u *Term) *Term {
		if r, ok := memo[u]; ok {
			return r
		}
		var out *Term
		if r := f(u); r != nil {
			out = r
		} else if len(u.Args) == 0 {
			out = u
		} else {
			args := make([]*Term, len(u.Args))
			changed := false
			for i, a := range u.Args {
				args[i] = rec(a)
				if args[i] != a {
					changed = true
				}
			}
			if !changed {
				out = u
			} else if u.Op == "forall" {
				out = mkForall(u.Name, args[0])
			} else {
				out = reapply(u.Op, u.Sort, args)
			}
		}
		memo[u] = out
		return out
	}
	return rec(t)
}

func reapply(op string, s Sort, a []*Term) *Term {
	switch op {
	case "+":
		return mkAdd(a...)
	case "-":
		if len(a) == 1 {
			return mkNeg(a[0])
		}
		return mkSub(a[0], a[1])
	case "*":
		return mkMul(a[0], a[1])
	case "div":
		return mkDiv(a[0], a[1])
	case "mod":
		return mkMod(a[0], a[1])
	case "not":
		return mkNot(a[0])
	case "and":
		return mkAnd(a...)
	case "or":
		return mkOr(a...)
	case "=>":
		return mkImp(a[0], a[1])
	case "ite":
		return mkIte(a[0], a[1], a[2])
	case "=":
		return mkEq(a[0], a[1])
	case "<", "<=", ">", ">=":
		return mkCmp(op, a[0], a[1])
	case "select":
		return mkSelect(a[0], a[1])
	case "store":
		return mkStore(a[0], a[1], a[2])
	case "V":
		return mkV(a[0], a[1], a[2])
	case "P":
		return mkP(a[0])
	case "V2":
		return mkV2(a[0], a[1], a[2])
	case "P2":
		return mkP2(a[0])
	case "p10":
		return mkP10(a[0])
	}
	return app(op, s, a...)
}

// freeConsts collects the free symbols of a set of terms, sorted by name.
func freeConsts(ts []*Term) []*Term {
	seen := map[string]*Term{}
	for _, t := range ts {
		walk(t, func(u *Term) bool {
			if u.Op == "const" {
				if p, ok := seen[u.Name]; ok && p.Sort != u.Sort {
					panic(fmt.Sprintf("symbol %s used at two sorts", u.Name))
				}
				seen[u.Name] = u
			}
			return true
		})
	}
	var names []string
	for n := range seen {
		names = append(names, n)
	}
	sort.Strings(names)
	out := make([]*Term, len(names))
	for i, n := range names {
		out[i] = seen[n]
	}
	return out
}
