package main

import (
	"fmt"
	"go/types"
	"sort"

	"golang.org/x/tools/go/ssa"
)

// loopEnv evaluates invariants: names are the current contents of the local cells.
func (fc *FnCtx) loopEnv(s *State, li *loopInfo) *Env {
	names := map[string]Val{}
	// ghost values bound so far (bind(g, e) at an earlier program point) can be named in invariants
	for g, t := range s.ghosts {
		names[g] = mathInt(t)
	}
	return &Env{fc: fc, names: names, cellsAt: s, heap: s.heap, oldNames: fc.entry, oldHeap: fc.oldHeap, pos: li.pos,
		nalloc0: fc.nalloc0, nobj0: fc.nobj0}
}

// writtenInLoop computes the cells and heap maps a loop may assign.
func (fc *FnCtx) writtenInLoop(li *loopInfo) (cells map[*ssa.Alloc]bool, heapKeys map[string]Sort, allocates bool) {
	cells = map[*ssa.Alloc]bool{}
	heapKeys = map[string]Sort{}
	var scanFn func(fn *ssa.Function, blocks func(*ssa.BasicBlock) bool, depth int)
	scanFn = func(fn *ssa.Function, inLoop func(*ssa.BasicBlock) bool, depth int) {
		for _, b := range fn.Blocks {
			if !inLoop(b) {
				continue
			}
			for _, in := range b.Instrs {
				switch x := in.(type) {
				case *ssa.Store:
					switch a := x.Addr.(type) {
					case *ssa.Alloc:
						cells[a] = true
					case *ssa.FieldAddr:
						if al, ok := a.X.(*ssa.Alloc); ok {
							if _, sname, ok2 := structOf(al.Type().Underlying().(*types.Pointer).Elem()); ok2 && isValueStruct(sname) {
								cells[al] = true
								continue
							}
						}
						st, sname, ok := structOf(a.X.Type())
						if ok {
							for k, v := range heapKeysOfField(sname, st.Field(a.Field)) {
								heapKeys[k] = v
							}
						}
					case *ssa.IndexAddr:
						heapKeys["Mem"] = SMem
					default:
						// store through a loaded pointer: a whole struct
						if st, sname, ok := structOf(x.Addr.Type()); ok {
							for i := 0; i < st.NumFields(); i++ {
								for k, v := range heapKeysOfField(sname, st.Field(i)) {
									heapKeys[k] = v
								}
							}
						}
					}
				case *ssa.Alloc:
					if x.Heap {
						allocates = true
					}
					if _, _, ok := structOf(x.Type().Underlying().(*types.Pointer).Elem()); ok {
						allocates = true
					}
				case *ssa.MakeSlice:
					allocates = true
					heapKeys["Mem"] = SMem
				case *ssa.Call:
					cc := x.Common()
					if b, ok := cc.Value.(*ssa.Builtin); ok {
						if b.Name() == "copy" || b.Name() == "append" {
							heapKeys["Mem"] = SMem
							if b.Name() == "append" {
								allocates = true
							}
						}
						continue
					}
					var ct *Contract
					if cc.IsInvoke() {
						ct = fc.eng.cs.Funcs["iface:"+typeName(cc.Value.Type())+"."+cc.Method.Name()]
					} else if callee := cc.StaticCallee(); callee != nil {
						ct = fc.eng.contractFor(callee)
						if ct != nil && ct.Inline && depth < 4 {
							scanFn(callee, func(*ssa.BasicBlock) bool { return true }, depth+1)
							continue
						}
						if callee.String() == "(encoding/binary.bigEndian).PutUint32" {
							heapKeys["Mem"] = SMem
						}
					}
					if ct == nil {
						continue
					}
					if !ct.Pure {
						allocates = true
					}
					for _, m := range ct.Modifies {
						switch m.Kind {
						case "call":
							if m.Name == "mem" || m.Name == "memcap" || m.Name == "memall" {
								heapKeys["Mem"] = SMem
							}
							if m.Name == "fields" {
								fc.allFieldKeys(heapKeys)
							}
						case "sel":
							// field of some struct: havoc that field name in every struct that has it
							for sname, st := range fc.structTypes {
								for i := 0; i < st.NumFields(); i++ {
									if st.Field(i).Name() == m.Name {
										for k, v := range heapKeysOfField(sname, st.Field(i)) {
											heapKeys[k] = v
										}
									}
								}
							}
						}
					}
				}
			}
		}
	}
	scanFn(fc.fn, func(b *ssa.BasicBlock) bool { return li.blocks[b] }, 0)
	return
}

func (fc *FnCtx) allFieldKeys(out map[string]Sort) {
	for sname, st := range fc.structTypes {
		for i := 0; i < st.NumFields(); i++ {
			for k, v := range heapKeysOfField(sname, st.Field(i)) {
				out[k] = v
			}
		}
	}
}

func (fc *FnCtx) enterLoop(s *State, li *loopInfo) *State {
	if li.spec == nil || len(li.spec.Invs) == 0 {
		panic(unsupported(fmt.Sprintf("loop %d has no invariant", li.ordinal)))
	}
	env := fc.loopEnv(s, li)
	for _, h := range li.spec.Hints {
		if h.Where == "head" || h.Where == "entry" {
			fc.applyHint(s, env, h, fmt.Sprintf("loop %d entry", li.ordinal))
		}
	}
	env = fc.loopEnv(s, li) // ghosts bound by the entry hints are visible to the invariants
	for _, inv := range li.spec.Invs {
		g := fc.evalSpecBool(env, inv.E)
		fc.oblige(s, fmt.Sprintf("%s.loop%d.invariant[%s].entry", fc.key, li.ordinal, inv.Label), "invariant", inv.Props, inv.Text, g, fmt.Sprintf("loop %d entry", li.ordinal))
	}
	// havoc
	cells, heapKeys, allocates := fc.writtenInLoop(li)
	s = s.clone()
	s.entered[li.head] = true
	var allocs []*ssa.Alloc
	for a := range cells {
		allocs = append(allocs, a)
	}
	sort.Slice(allocs, func(i, j int) bool { return allocs[i].Pos() < allocs[j].Pos() })
	for _, a := range allocs {
		c := s.allocs[a]
		if c == nil {
			continue // declared inside the loop
		}
		nv := fc.freshVal(fmt.Sprintf("%s_L%d", c.Name, li.ordinal), c.Typ)
		s.cells[c] = nv
	}
	frame := &Frame{NAlloc0: s.heap["nalloc"], NObj0: s.heap["nobj"], What: fmt.Sprintf("loop %d", li.ordinal), loop: li}
	if li.spec.HasMod {
		frame.Declared = true
		for _, m := range li.spec.Modifies {
			fc.addFrameEntry(frame, env, m)
		}
		old := s.snapshotHeap()
		fc.havocFrame(s, frame, old)
		// heap maps written in the loop that are not fields/regions of the declared frame stay exact
	} else {
		var keys []string
		for k := range heapKeys {
			keys = append(keys, k)
		}
		sort.Strings(keys)
		for _, k := range keys {
			s.heap[k] = fc.fresh("L_"+k, heapKeys[k])
		}
	}
	if allocates {
		na := fc.fresh("nalloc", SInt)
		s.assume(mkGe(na, s.heap["nalloc"]))
		s.heap["nalloc"] = na
		no := fc.fresh("nobj", SInt)
		s.assume(mkGe(no, s.heap["nobj"]))
		s.heap["nobj"] = no
	}
	// type facts of the havocked cells
	for _, a := range allocs {
		if c := s.allocs[a]; c != nil {
			s.assume(fc.typeAssume(s.cells[c], s.heap["nalloc"], s.heap["nobj"]))
		}
	}
	s.frames = append(s.frames, frame)
	env2 := fc.loopEnv(s, li)
	for _, inv := range li.spec.Invs {
		s.assume(fc.evalSpecBool(env2, inv.E))
	}
	for _, h := range li.spec.Hints {
		if h.Where == "head" {
			fc.applyHint(s, env2, h, fmt.Sprintf("loop %d head", li.ordinal))
		}
	}
	s.trace = append(s.trace, fmt.Sprintf("loop%d", li.ordinal))
	return s
}

func (fc *FnCtx) atBackEdge(s *State, li *loopInfo) {
	fc.npaths++
	env := fc.loopEnv(s, li)
	for _, h := range li.spec.Hints {
		if h.Where == "back" {
			fc.applyHint(s, env, h, fmt.Sprintf("loop %d back edge", li.ordinal))
		}
	}
	for _, inv := range li.spec.Invs {
		g := fc.evalSpecBool(env, inv.E)
		fc.oblige(s, fmt.Sprintf("%s.loop%d.invariant[%s].preserved", fc.key, li.ordinal, inv.Label), "invariant", inv.Props, inv.Text, g, fmt.Sprintf("loop %d back edge", li.ordinal))
	}
}

// ---------- deferred handlers (context package) ----------

func (fc *FnCtx) runDefersNormal(s *State, fn *ssa.Function) {
	// On a normal return recover() yields nil; the handlers in scope are of the form
	// `if err := recover(); err != nil {...}` and are executed for their side effects.
	if fn != fc.fn || len(s.defers) == 0 {
		return
	}
	ds := s.defers
	s.defers = nil
	for i := len(ds) - 1; i >= 0; i-- {
		d := ds[i]
		done := false
		fc.bindClosure(s, d)
		s.depth++
		saved := s.panicVal
		s.panicVal = nil
		// handlers on the normal path must be straight-line up to forking; we require a single continuation
		var outs []*State
		fc.execBlock(s, d.fn, d.fn.Blocks[0], 0, func(s2 *State, rets []Val) {
			outs = append(outs, s2)
		})
		_ = done
		if len(outs) != 1 {
			panic(unsupported("deferred handler forks on the normal path"))
		}
		*s = *outs[0]
		s.depth--
		s.panicVal = saved
	}
}

func (fc *FnCtx) bindClosure(s *State, d deferred) {
	if _, done := fc.numbered[d.fn]; !done {
		fc.numbered[d.fn] = true
		fc.numberInstrs(d.fn, "defer:")
	}
	for i, fv := range d.fn.FreeVars {
		s.regs[fv] = d.free[i]
	}
}

// runDefersPanicking runs the deferred closures while panicking with pv.
func (fc *FnCtx) runDefersPanicking(s *State, pv Val, why string, rk retK) {
	ds := s.defers
	d := ds[len(ds)-1]
	s.defers = ds[:len(ds)-1]
	fc.bindClosure(s, d)
	p := pv
	s.panicVal = &p
	s.recovered = false
	s.depth++
	fc.execBlock(s, d.fn, d.fn.Blocks[0], 0, func(s2 *State, rets []Val) {
		s2.depth--
		rec := s2.recovered
		s2.panicVal = nil
		s2.recovered = false
		if rec {
			// the function returns normally through its Recover block
			if fc.fn.Recover == nil {
				panic(unsupported("recover without Recover block"))
			}
			s2.defers = nil
			s2.trace = append(s2.trace, "recovered")
			fc.execBlock(s2, fc.fn, fc.fn.Recover, 0, rk)
			return
		}
		fc.propagatePanic(s2, pv, why, rk)
	})
}

// repanic: a deferred handler panics again with the value it recovered.
func (fc *FnCtx) repanic(s *State, v Val) {
	s.panicVal = nil
	s.defers = nil
	if v.Dyn == "ErrNaN" && !s.ghostOther {
		fc.atErrNaNPanic(s, "re-panic of ErrNaN")
		return
	}
	fc.atOtherPanic(s, v, "re-panic")
}

// atOtherPanic: the function panics with a value that is not an ErrNaN.  This is only
// legal where the contract says so (`panics[other]` with the ghost predicate otherpanic).
func (fc *FnCtx) atOtherPanic(s *State, v Val, why string) {
	fc.npaths++
	fc.otherPanicExits++
	if s.ghostOther {
		// the hypothetical foreign panic propagates: that is what the property asks for
		fc.oblige(s, fc.key+".handler.other", "handler", []string{"C19"}, "a panic whose value is not an ErrNaN propagates", tTrue, "panic")
		return
	}
	env := fc.entryEnv(s)
	found := false
	for _, c := range fc.ct.OnPanic {
		if c.Label == "other" {
			found = true
			g := fc.evalSpecBool(env, c.E)
			fc.oblige(s, fmt.Sprintf("%s.onpanic[other]", fc.key), "onpanic", c.Props, c.Text, g, "panic")
		}
	}
	if !found {
		fc.oblige(s, fc.key+".panic.other", "safety", []string{"C04"}, "unreachable: panic with a non-ErrNaN value ("+why+")", tFalse, "panic")
	}
}

// ---------- type assertions ----------

func (fc *FnCtx) execTypeAssert(s *State, fn *ssa.Function, x *ssa.TypeAssert, k callK, rk retK) {
	v := fc.val(s, x.X)
	in := ssa.Instruction(x)
	if types.IsInterface(x.AssertedType) {
		// x.(error): fails with a runtime error (not an ErrNaN) unless the dynamic value implements it
		impl := app("implements_"+mangle(typeName(x.AssertedType)), SBool, app("dyntype", SInt, v.T))
		if v.Dyn == "ErrNaN" || v.Dyn == "error" {
			s.assume(impl)
		}
		isErrNaN := mkEq(app("dyntype", SInt, v.T), mkI(fc.eng.typeCode("ErrNaN")))
		s.assume(mkImp(isErrNaN, impl))
		ok := mkAnd(mkNot(mkEq(v.T, mkI(0))), impl)
		if x.CommaOk {
			r := v
			r.Typ = x.AssertedType
			k(s, Val{K: VTuple, Elems: []Val{r, boolVal(ok)}, Typ: x.Type()})
			return
		}
		bad := s.clone()
		bad.assume(mkNot(ok))
		bad.trace = append(bad.trace, "typeassert fails @"+instrPos(fc, in))
		pv := Val{K: VOpaque, T: fc.fresh("rterr", SInt), Dyn: "runtime.TypeAssertionError"}
		bad.assume(mkLt(mkI(0), pv.T))
		bad.assume(mkNot(mkEq(app("dyntype", SInt, pv.T), mkI(fc.eng.typeCode("ErrNaN")))))
		if s.panicVal != nil {
			// a new panic inside a deferred handler replaces the one being handled
			bad.panicVal = nil
			bad.recovered = false
			bad.defers = nil
			fc.atOtherPanic(bad, pv, "failed type assertion in deferred handler")
		} else {
			fc.propagatePanic(bad, pv, "failed type assertion", rk)
		}
		s.assume(ok)
		r := v
		r.Typ = x.AssertedType
		k(s, r)
		return
	}
	// concrete type
	tn := typeName(x.AssertedType)
	is := mkAnd(mkNot(mkEq(v.T, mkI(0))), mkEq(app("dyntype", SInt, v.T), mkI(fc.eng.typeCode(tn))))
	if x.CommaOk {
		r := Val{K: VOpaque, T: v.T, Typ: x.AssertedType, Dyn: tn}
		if _, ok := x.AssertedType.Underlying().(*types.Pointer); ok {
			r = Val{K: VPtr, T: app("unbox", SInt, v.T), Typ: x.AssertedType}
		}
		k(s, Val{K: VTuple, Elems: []Val{r, boolVal(is)}, Typ: x.Type()})
		return
	}
	name := fmt.Sprintf("%s.typeassert#%d", fc.key, fc.ordinals[in])
	fc.oblige(s, name, "safety", []string{"C04"}, "type assertion to "+tn+" succeeds", is, instrPos(fc, in))
	s.assume(is)
	r := Val{K: VOpaque, T: v.T, Typ: x.AssertedType, Dyn: tn}
	if _, ok := x.AssertedType.Underlying().(*types.Pointer); ok {
		r = Val{K: VPtr, T: app("unbox", SInt, v.T), Typ: x.AssertedType}
		s.assume(mkAnd(mkLe(mkI(0), r.T), mkLt(r.T, s.heap["nobj"])))
	}
	k(s, r)
}
