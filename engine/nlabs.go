package main

// Abstraction of nonlinear multiplication for one extra solver attempt.
//
// Every integer term is put in polynomial normal form (sum of monomials, each monomial a
// sorted list of non-arithmetic atoms), and a monomial of two or more atoms becomes an
// application nlm<k>(a1..ak) of an uninterpreted function.  Commutativity, associativity
// and distributivity are therefore built into the syntax, and what is left for the solver
// is linear arithmetic + uninterpreted functions + arrays.  Interpreting nlm<k> as the
// product shows that every model of the original query is a model of the abstraction, so
// `unsat` carries over (a `sat` answer of the abstraction means nothing).  The facts about
// products that a proof needs come from explicit lemma instances (mul_mono, mul_eq, ...).

import (
	"fmt"
	"math/big"
	"sort"
	"strings"
)

type monomial struct {
	coef  *big.Int
	atoms []*Term // sorted by String()
}

type polynomial struct {
	keys []string
	m    map[string]*monomial
}

func newPoly() *polynomial { return &polynomial{m: map[string]*monomial{}} }

func monoKey(atoms []*Term) string {
	var ks []string
	for _, a := range atoms {
		ks = append(ks, a.String())
	}
	return strings.Join(ks, "\x00")
}

func (p *polynomial) add(coef *big.Int, atoms []*Term) {
	if coef.Sign() == 0 {
		return
	}
	k := monoKey(atoms)
	if e, ok := p.m[k]; ok {
		e.coef = new(big.Int).Add(e.coef, coef)
		return
	}
	p.keys = append(p.keys, k)
	p.m[k] = &monomial{coef: new(big.Int).Set(coef), atoms: atoms}
}

func (p *polynomial) addPoly(q *polynomial, c *big.Int) {
	for _, k := range q.keys {
		e := q.m[k]
		p.add(new(big.Int).Mul(e.coef, c), e.atoms)
	}
}

func mulPoly(a, b *polynomial) *polynomial {
	r := newPoly()
	for _, ka := range a.keys {
		ea := a.m[ka]
		for _, kb := range b.keys {
			eb := b.m[kb]
			atoms := append(append([]*Term(nil), ea.atoms...), eb.atoms...)
			sort.SliceStable(atoms, func(i, j int) bool { return atoms[i].String() < atoms[j].String() })
			r.add(new(big.Int).Mul(ea.coef, eb.coef), atoms)
		}
	}
	return r
}

type nlAbs struct {
	memo    map[*Term]*Term
	changed bool
}

const maxPolyTerms = 400

// polyOf returns the polynomial of an Int term whose non-arithmetic subterms are abstracted.
func (n *nlAbs) polyOf(t *Term) *polynomial {
	p := newPoly()
	switch {
	case t.isInt():
		p.add(t.Val, nil)
	case t.Op == "+":
		for _, a := range t.Args {
			p.addPoly(n.polyOf(a), bigOne)
		}
	case t.Op == "-" && len(t.Args) == 1:
		p.addPoly(n.polyOf(t.Args[0]), big.NewInt(-1))
	case t.Op == "-" && len(t.Args) == 2:
		p.addPoly(n.polyOf(t.Args[0]), bigOne)
		p.addPoly(n.polyOf(t.Args[1]), big.NewInt(-1))
	case t.Op == "*" && len(t.Args) == 2:
		a, b := n.polyOf(t.Args[0]), n.polyOf(t.Args[1])
		if len(a.keys)*len(b.keys) > maxPolyTerms {
			// too large to expand: keep the product opaque
			x, y := n.atomOf(a), n.atomOf(b)
			atoms := []*Term{x, y}
			sort.SliceStable(atoms, func(i, j int) bool { return atoms[i].String() < atoms[j].String() })
			p.add(bigOne, atoms)
		} else {
			p = mulPoly(a, b)
		}
	default:
		p.add(bigOne, []*Term{n.abs(t)})
	}
	return p
}

// atomOf turns a polynomial back into a single term (used when a product is not expanded).
func (n *nlAbs) atomOf(p *polynomial) *Term { return n.termOf(p) }

func (n *nlAbs) termOf(p *polynomial) *Term {
	l := newLin()
	for _, k := range p.keys {
		e := p.m[k]
		if e.coef.Sign() == 0 {
			continue
		}
		switch len(e.atoms) {
		case 0:
			l.add(mkInt(e.coef), bigOne)
		case 1:
			l.add(e.atoms[0], e.coef)
		default:
			n.changed = true
			l.add(app(fmt.Sprintf("nlm%d", len(e.atoms)), SInt, e.atoms...), e.coef)
		}
	}
	return l.term()
}

func (n *nlAbs) abs(t *Term) *Term {
	if r, ok := n.memo[t]; ok {
		return r
	}
	var out *Term
	switch {
	case len(t.Args) == 0:
		out = t
	case t.Sort == SInt && (t.Op == "+" || t.Op == "-" || t.Op == "*"):
		out = n.termOf(n.polyOf(t))
	case t.Op == "forall":
		out = mkForall(t.Name, n.abs(t.Args[0]))
	default:
		args := make([]*Term, len(t.Args))
		same := true
		for i, a := range t.Args {
			args[i] = n.abs(a)
			if args[i] != a {
				same = false
			}
		}
		if same {
			out = t
		} else {
			out = intern(&Term{Op: t.Op, Sort: t.Sort, Name: t.Name, Val: t.Val, Args: args})
		}
	}
	n.memo[t] = out
	return out
}

// abstractNonlinear returns the abstracted assertions and whether anything was abstracted.
func abstractNonlinear(asserts []*Term) ([]*Term, bool) {
	n := &nlAbs{memo: map[*Term]*Term{}}
	out := make([]*Term, len(asserts))
	for i, a := range asserts {
		out[i] = n.abs(a)
	}
	return out, n.changed
}
