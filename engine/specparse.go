package main

// Parser for the contract expression language (a Go-expression subset plus
// ==>, <==>, old(), forall k in lo..hi :: e, c ? a : b).

import (
	"fmt"
	"math/big"
	"strings"
	"unicode"
)

type Expr struct {
	Kind string // int, ident, bin, un, call, sel, index, slice, old, forall, cond, let
	Op   string
	Name string
	Val  *big.Int
	Args []*Expr // operands; for slice: [x, lo|nil, hi|nil]; forall: [lo, hi, body]; cond: [c,a,b]; let: [val, body]
	Pos  string
}

func (e *Expr) String() string {
	if e == nil {
		return "_"
	}
	switch e.Kind {
	case "int":
		return e.Val.String()
	case "ident":
		return e.Name
	case "bin":
		return "(" + e.Args[0].String() + " " + e.Op + " " + e.Args[1].String() + ")"
	case "un":
		return e.Op + e.Args[0].String()
	case "call":
		var a []string
		for _, x := range e.Args {
			a = append(a, x.String())
		}
		return e.Name + "(" + strings.Join(a, ", ") + ")"
	case "sel":
		return e.Args[0].String() + "." + e.Name
	case "index":
		return e.Args[0].String() + "[" + e.Args[1].String() + "]"
	case "slice":
		s := e.Args[0].String() + "["
		if e.Args[1] != nil {
			s += e.Args[1].String()
		}
		s += ":"
		if e.Args[2] != nil {
			s += e.Args[2].String()
		}
		return s + "]"
	case "old":
		return "old(" + e.Args[0].String() + ")"
	case "forall":
		return "forall " + e.Name + " in " + e.Args[0].String() + ".." + e.Args[1].String() + " :: " + e.Args[2].String()
	case "cond":
		return "(" + e.Args[0].String() + " ? " + e.Args[1].String() + " : " + e.Args[2].String() + ")"
	case "let":
		return "let " + e.Name + " = " + e.Args[0].String() + " in " + e.Args[1].String()
	}
	return "?"
}

type tok struct {
	k string // int, id, op, eof
	s string
}

func lexSpec(src string) ([]tok, error) {
	var out []tok
	i := 0
	for i < len(src) {
		c := rune(src[i])
		switch {
		case c == ' ' || c == '\t' || c == '\n':
			i++
		case unicode.IsDigit(c):
			j := i
			for j < len(src) && (unicode.IsDigit(rune(src[j])) || src[j] == '_' || src[j] == 'x' || (src[j] >= 'a' && src[j] <= 'f') || (src[j] >= 'A' && src[j] <= 'F')) {
				j++
			}
			out = append(out, tok{"int", strings.ReplaceAll(src[i:j], "_", "")})
			i = j
		case unicode.IsLetter(c) || c == '_':
			j := i
			for j < len(src) && (unicode.IsLetter(rune(src[j])) || unicode.IsDigit(rune(src[j])) || src[j] == '_') {
				j++
			}
			out = append(out, tok{"id", src[i:j]})
			i = j
		default:
			ops := []string{"<==>", "==>", "..", "::", "==", "!=", "<=", ">=", "&&", "||", "<<", ">>",
				"+", "-", "*", "/", "%", "<", ">", "!", "(", ")", "[", "]", ".", ",", ":", "?", "="}
			found := false
			for _, o := range ops {
				if strings.HasPrefix(src[i:], o) {
					out = append(out, tok{"op", o})
					i += len(o)
					found = true
					break
				}
			}
			if !found {
				return nil, fmt.Errorf("bad character %q in %q", c, src)
			}
		}
	}
	out = append(out, tok{"eof", ""})
	return out, nil
}

type sparser struct {
	toks []tok
	p    int
	src  string
}

func parseSpec(src string) (e *Expr, err error) {
	toks, err := lexSpec(src)
	if err != nil {
		return nil, err
	}
	ps := &sparser{toks: toks, src: src}
	defer func() {
		if r := recover(); r != nil {
			if s, ok := r.(string); ok {
				err = fmt.Errorf("spec parse error: %s in %q", s, src)
				return
			}
			panic(r)
		}
	}()
	e = ps.expr()
	if ps.peek().k != "eof" {
		panic("trailing tokens at " + ps.peek().s)
	}
	return e, nil
}

func (p *sparser) peek() tok { return p.toks[p.p] }
func (p *sparser) next() tok { t := p.toks[p.p]; p.p++; return t }
func (p *sparser) isOp(s string) bool {
	t := p.peek()
	return t.k == "op" && t.s == s
}
func (p *sparser) isID(s string) bool {
	t := p.peek()
	return t.k == "id" && t.s == s
}
func (p *sparser) expect(s string) {
	if !p.isOp(s) {
		panic("expected " + s + " got " + p.peek().s)
	}
	p.p++
}

func (p *sparser) expr() *Expr {
	if p.isID("forall") {
		p.next()
		v := p.next()
		if v.k != "id" {
			panic("forall needs a variable")
		}
		if !p.isID("in") {
			panic("forall needs 'in'")
		}
		p.next()
		lo := p.addExpr()
		p.expect("..")
		hi := p.addExpr()
		p.expect("::")
		body := p.expr()
		return &Expr{Kind: "forall", Name: v.s, Args: []*Expr{lo, hi, body}}
	}
	if p.isID("let") {
		p.next()
		v := p.next()
		p.expect("=")
		val := p.condExpr()
		if !p.isID("in") {
			panic("let needs 'in'")
		}
		p.next()
		body := p.expr()
		return &Expr{Kind: "let", Name: v.s, Args: []*Expr{val, body}}
	}
	return p.impExpr()
}

func (p *sparser) impExpr() *Expr {
	l := p.condExpr()
	if p.isOp("==>") {
		p.next()
		r := p.expr()
		return &Expr{Kind: "bin", Op: "==>", Args: []*Expr{l, r}}
	}
	if p.isOp("<==>") {
		p.next()
		r := p.condExpr()
		return &Expr{Kind: "bin", Op: "<==>", Args: []*Expr{l, r}}
	}
	return l
}

func (p *sparser) condExpr() *Expr {
	c := p.orExpr()
	if p.isOp("?") {
		p.next()
		a := p.condExpr()
		p.expect(":")
		b := p.condExpr()
		return &Expr{Kind: "cond", Args: []*Expr{c, a, b}}
	}
	return c
}

func (p *sparser) orExpr() *Expr {
	l := p.andExpr()
	for p.isOp("||") {
		p.next()
		r := p.andExpr()
		l = &Expr{Kind: "bin", Op: "||", Args: []*Expr{l, r}}
	}
	return l
}

func (p *sparser) andExpr() *Expr {
	l := p.cmpExpr()
	for p.isOp("&&") {
		p.next()
		r := p.cmpExpr()
		l = &Expr{Kind: "bin", Op: "&&", Args: []*Expr{l, r}}
	}
	return l
}

func (p *sparser) cmpExpr() *Expr {
	l := p.addExpr()
	for _, o := range []string{"==", "!=", "<=", ">=", "<", ">"} {
		if p.isOp(o) {
			p.next()
			r := p.addExpr()
			return &Expr{Kind: "bin", Op: o, Args: []*Expr{l, r}}
		}
	}
	return l
}

func (p *sparser) addExpr() *Expr {
	l := p.mulExpr()
	for p.isOp("+") || p.isOp("-") {
		o := p.next().s
		r := p.mulExpr()
		l = &Expr{Kind: "bin", Op: o, Args: []*Expr{l, r}}
	}
	return l
}

func (p *sparser) mulExpr() *Expr {
	l := p.unExpr()
	for p.isOp("*") || p.isOp("/") || p.isOp("%") {
		o := p.next().s
		r := p.unExpr()
		l = &Expr{Kind: "bin", Op: o, Args: []*Expr{l, r}}
	}
	return l
}

func (p *sparser) unExpr() *Expr {
	if p.isOp("!") || p.isOp("-") {
		o := p.next().s
		x := p.unExpr()
		return &Expr{Kind: "un", Op: o, Args: []*Expr{x}}
	}
	return p.postfix()
}

func (p *sparser) postfix() *Expr {
	x := p.primary()
	for {
		switch {
		case p.isOp("."):
			p.next()
			id := p.next()
			if id.k != "id" {
				panic("selector needs identifier")
			}
			x = &Expr{Kind: "sel", Name: id.s, Args: []*Expr{x}}
		case p.isOp("["):
			p.next()
			var lo, hi *Expr
			if p.isOp(":") {
				p.next()
				if !p.isOp("]") {
					hi = p.addExpr()
				}
				p.expect("]")
				x = &Expr{Kind: "slice", Args: []*Expr{x, nil, hi}}
				continue
			}
			lo = p.addExpr()
			if p.isOp(":") {
				p.next()
				if !p.isOp("]") {
					hi = p.addExpr()
				}
				p.expect("]")
				x = &Expr{Kind: "slice", Args: []*Expr{x, lo, hi}}
				continue
			}
			p.expect("]")
			x = &Expr{Kind: "index", Args: []*Expr{x, lo}}
		default:
			return x
		}
	}
}

func (p *sparser) primary() *Expr {
	t := p.next()
	switch t.k {
	case "int":
		v, ok := new(big.Int).SetString(t.s, 0)
		if !ok {
			panic("bad integer " + t.s)
		}
		return &Expr{Kind: "int", Val: v}
	case "id":
		if p.isOp("(") {
			p.next()
			var args []*Expr
			for !p.isOp(")") {
				args = append(args, p.expr())
				if p.isOp(",") {
					p.next()
				}
			}
			p.expect(")")
			if t.s == "old" {
				if len(args) != 1 {
					panic("old takes one argument")
				}
				return &Expr{Kind: "old", Args: args}
			}
			return &Expr{Kind: "call", Name: t.s, Args: args}
		}
		return &Expr{Kind: "ident", Name: t.s}
	case "op":
		if t.s == "(" {
			e := p.expr()
			p.expect(")")
			return e
		}
	}
	panic("unexpected token " + t.s)
}
