package main

// Assembly front end: verification conditions for the amd64 routines of
// dec_arith_amd64.s / arith_amd64.s against the SAME contract as their portable Go twin.
//
// The routine text is parsed (Plan 9 syntax, the file's #defines expanded) and executed
// symbolically, instruction by instruction: registers hold 64-bit values as mathematical
// integers in [0, 2^64) (every result is reduced mod 2^64), or a pointer into a slice
// parameter (array, element offset); CF/ZF and the signed conditions are kept as terms;
// memory is the same Mem as for Go code.  Loop heads carry invariants
// (`label L invariant ...` in the contract file), checked on entry and on every jump back;
// on entry the registers written in the loop, the flags and the declared memory frame are
// havocked.  Loads and stores must stay inside the slice parameter they are derived from,
// stores inside the contract's modifies clause, DIVQ must not fault.
//
// Instruction subset: MOVQ LEAQ ADDQ ADCQ SUBQ SBBQ NEGQ NOTQ ANDQ ORQ XORQ TESTQ CMPQ MULQ
// DIVQ SARQ/SHRQ/SHLQ by an immediate, JMP JL JLE JG JGE JEQ JNE JCC JCS, RET and a tail
// JMP to another TEXT of the same file.  Anything else puts the routine outside the subset
// (reported, never skipped silently).  Assumptions listed in the evidence: the Go ABI0
// argument layout is what `name+off(FP)` says (vet checks it), distinct (array, offset)
// pairs have distinct addresses, the flags after MULQ/DIVQ/logic ops are not relied upon
// beyond CF=OF=0 for the logic ops.

import (
	"fmt"
	"go/types"
	"math/big"
	"os"
	"path/filepath"
	"regexp"
	"sort"
	"strconv"
	"strings"
)

type asmOperand struct {
	kind  string // reg, imm, mem, fp, sym
	reg   string
	imm   *big.Int
	base  string
	index string
	scale int64
	disp  int64
	name  string // fp: parameter name (with _len/_cap suffix); sym: symbol
	text  string
}

type asmInstr struct {
	label string
	op    string
	args  []asmOperand
	line  int
	text  string
}

type asmRoutine struct {
	name   string
	instrs []asmInstr
	labels map[string]int
}

var asmRegs = map[string]bool{"AX": true, "BX": true, "CX": true, "DX": true, "SI": true, "DI": true, "BP": true,
	"R8": true, "R9": true, "R10": true, "R11": true, "R12": true, "R13": true, "R14": true, "R15": true}

var memRe = regexp.MustCompile(`^(-?[0-9a-fA-Fx]*)\(([A-Z0-9]+)\)(?:\(([A-Z0-9]+)\*([0-9]+)\))?$`)
var fpRe = regexp.MustCompile(`^([A-Za-z_][A-Za-z0-9_]*)\+(-?[0-9]+)\(FP\)$`)
var symRe = regexp.MustCompile(`^(·?[A-Za-z_][A-Za-z0-9_]*)\(SB\)$`)

func parseAsmInt(s string, defs map[string]string) (*big.Int, bool) {
	if v, ok := defs[s]; ok {
		s = v
	}
	n := new(big.Int)
	if _, ok := n.SetString(s, 0); ok {
		return n, true
	}
	return nil, false
}

func parseAsmOperand(s string, defs map[string]string) (asmOperand, error) {
	s = strings.TrimSpace(s)
	op := asmOperand{text: s}
	switch {
	case asmRegs[s]:
		op.kind, op.reg = "reg", s
	case strings.HasPrefix(s, "$"):
		n, ok := parseAsmInt(s[1:], defs)
		if !ok {
			return op, fmt.Errorf("bad immediate %q", s)
		}
		op.kind, op.imm = "imm", n
	case fpRe.MatchString(s):
		m := fpRe.FindStringSubmatch(s)
		op.kind, op.name = "fp", m[1]
		op.disp, _ = strconv.ParseInt(m[2], 10, 64)
	case symRe.MatchString(s):
		m := symRe.FindStringSubmatch(s)
		op.kind, op.name = "sym", strings.TrimPrefix(m[1], "·")
	case memRe.MatchString(s):
		m := memRe.FindStringSubmatch(s)
		op.kind = "mem"
		if m[1] != "" {
			d, ok := parseAsmInt(m[1], defs)
			if !ok {
				return op, fmt.Errorf("bad displacement %q", s)
			}
			op.disp = d.Int64()
		}
		op.base = m[2]
		if m[3] != "" {
			op.index = m[3]
			op.scale, _ = strconv.ParseInt(m[4], 10, 64)
		}
	default:
		return op, fmt.Errorf("unsupported operand %q", s)
	}
	return op, nil
}

// parseAsmFile splits an assembly file into routines.
func parseAsmFile(path string, overlay map[string][]byte) (map[string]*asmRoutine, error) {
	b, ok := overlay[path]
	if !ok {
		var err error
		b, err = os.ReadFile(path)
		if err != nil {
			return nil, err
		}
	}
	defs := map[string]string{}
	out := map[string]*asmRoutine{}
	var cur *asmRoutine
	for ln, raw := range strings.Split(string(b), "\n") {
		line := raw
		if i := strings.Index(line, "//"); i >= 0 {
			line = line[:i]
		}
		line = strings.TrimSpace(line)
		if line == "" {
			continue
		}
		if strings.HasPrefix(line, "#define") {
			fs := strings.Fields(line)
			if len(fs) >= 3 {
				defs[fs[1]] = fs[2]
			}
			continue
		}
		if strings.HasPrefix(line, "#") {
			continue
		}
		if strings.HasPrefix(line, "TEXT") {
			rest := strings.TrimSpace(line[4:])
			name := rest
			if i := strings.Index(rest, "(SB)"); i >= 0 {
				name = rest[:i]
			}
			name = strings.TrimPrefix(strings.TrimSpace(name), "·")
			cur = &asmRoutine{name: name, labels: map[string]int{}}
			out[name] = cur
			continue
		}
		if cur == nil {
			continue
		}
		label := ""
		if i := strings.Index(line, ":"); i > 0 && !strings.ContainsAny(line[:i], " \t,$(") {
			label = line[:i]
			line = strings.TrimSpace(line[i+1:])
		}
		if label != "" {
			cur.labels[label] = len(cur.instrs)
		}
		if line == "" {
			// label on its own line: attach to the next instruction
			cur.instrs = append(cur.instrs, asmInstr{label: label, op: "NOP", line: ln + 1, text: raw})
			continue
		}
		fs := strings.SplitN(line, " ", 2)
		if len(strings.Fields(line)) > 0 {
			fs = []string{strings.Fields(line)[0], strings.TrimSpace(line[len(strings.Fields(line)[0]):])}
		}
		in := asmInstr{label: label, op: fs[0], line: ln + 1, text: strings.TrimSpace(raw)}
		if len(fs) > 1 && fs[1] != "" {
			for _, a := range splitAsmArgs(fs[1]) {
				if in.op[0] == 'J' {
					a = strings.TrimSpace(a)
					if symRe.MatchString(a) {
						in.args = append(in.args, asmOperand{kind: "sym", name: strings.TrimPrefix(symRe.FindStringSubmatch(a)[1], "·"), text: a})
					} else {
						in.args = append(in.args, asmOperand{kind: "label", name: a, text: a})
					}
					continue
				}
				o, err := parseAsmOperand(a, defs)
				if err != nil {
					// only an error for the routine that executes it
					o = asmOperand{kind: "bad", text: strings.TrimSpace(a)}
				}
				in.args = append(in.args, o)
			}
		}
		cur.instrs = append(cur.instrs, in)
	}
	return out, nil
}

func splitAsmArgs(s string) []string {
	var out []string
	depth, start := 0, 0
	for i, c := range s {
		switch c {
		case '(':
			depth++
		case ')':
			depth--
		case ',':
			if depth == 0 {
				out = append(out, s[start:i])
				start = i + 1
			}
		}
	}
	out = append(out, s[start:])
	return out
}

// ---------- symbolic machine state ----------

type aval struct {
	t    *Term // integer value in [0, 2^64)
	ptr  bool
	arr  *Term
	off  *Term // element offset of the pointer inside arr
	sl   *Val  // slice parameter the pointer was derived from (bounds for loads/stores)
	nm   string
	glob string // pointer to the first byte of this global table (LEAQ sym(SB), R)
}

type astate struct {
	regs     map[string]aval
	cf       *Term // carry flag (Bool) or nil if undefined
	zf       *Term
	lt       *Term // SF != OF
	s        *State
	res      map[string]*Term // result slots written
	pc       int
	seen     map[string]int
	inRt     *asmRoutine
	nload    int
	head     map[string]*Term // integer registers as they were at the last loop head (names R_0 in specs)
	headPC   int              // length of the path condition right after the last loop head
	cutFacts []*Term          // facts established by hints since the last loop head
}

func (a *astate) clone() *astate {
	n := &astate{regs: map[string]aval{}, cf: a.cf, zf: a.zf, lt: a.lt, s: a.s.clone(), res: map[string]*Term{}, pc: a.pc, seen: map[string]int{}, inRt: a.inRt, nload: a.nload, head: a.head, headPC: a.headPC, cutFacts: append([]*Term(nil), a.cutFacts...)}
	for k, v := range a.regs {
		n.regs[k] = v
	}
	for k, v := range a.res {
		n.res[k] = v
	}
	for k, v := range a.seen {
		n.seen[k] = v
	}
	return n
}

var m64 = new(big.Int).Sub(two64, bigOne)

func wrap64(t *Term) *Term { return mkMod(t, mkInt(two64)) }

func signed64(t *Term) *Term {
	return mkIte(mkGe(t, mkInt(two63)), mkSub(t, mkInt(two64)), t)
}

type asmCtx struct {
	fc       *FnCtx
	file     map[string]*asmRoutine
	rt       *asmRoutine
	sig      *types.Signature
	uit      ityp
	nstore   int
	fname    string
	resAlias map[string]string // result name in the Go declaration -> name used in the contract header
	entryPC  int               // length of the path condition after the preconditions and entry hints
}

func (ac *asmCtx) unsupported(in asmInstr, why string) {
	panic(unsupported(fmt.Sprintf("assembly %s line %d `%s`: %s", ac.fname, in.line, in.text, why)))
}

// paramSlot resolves `name+off(FP)`.
func (ac *asmCtx) paramSlot(a *astate, in asmInstr, o asmOperand) (val aval, isResult bool, resName string) {
	name := o.name
	comp := ""
	if strings.HasSuffix(name, "_len") {
		name, comp = strings.TrimSuffix(name, "_len"), "len"
	} else if strings.HasSuffix(name, "_cap") {
		name, comp = strings.TrimSuffix(name, "_cap"), "cap"
	}
	res := ac.sig.Results()
	for i := 0; i < res.Len(); i++ {
		if res.At(i).Name() == name {
			return aval{}, true, name
		}
	}
	v, ok := ac.fc.entry[name]
	if !ok {
		ac.unsupported(in, "unknown parameter "+name)
	}
	switch v.K {
	case VSlice:
		switch comp {
		case "len":
			return aval{t: v.Len}, false, ""
		case "cap":
			return aval{t: v.Cap}, false, ""
		}
		vv := v
		return aval{ptr: true, arr: v.Arr, off: v.Off, sl: &vv, nm: name}, false, ""
	case VInt:
		return aval{t: v.T}, false, ""
	}
	ac.unsupported(in, "parameter kind of "+name)
	return
}

func (ac *asmCtx) regInt(a *astate, in asmInstr, r string) *Term {
	v, ok := a.regs[r]
	if !ok {
		ac.unsupported(in, "register "+r+" read before it is written")
	}
	if v.ptr {
		ac.unsupported(in, "pointer in "+r+" used as an integer")
	}
	return v.t
}

// memAddr resolves a memory operand to (array, element index) and checks the access.
func (ac *asmCtx) memAddr(a *astate, in asmInstr, o asmOperand, what string) (arr, idx *Term) {
	b, ok := a.regs[o.base]
	if !ok || !b.ptr {
		ac.unsupported(in, "memory operand whose base register does not hold a slice pointer")
	}
	if o.disp%8 != 0 {
		ac.unsupported(in, "unaligned displacement")
	}
	idx = mkAdd(b.off, mkI(o.disp/8))
	if o.index != "" {
		if o.scale != 8 {
			ac.unsupported(in, "index scale other than 8")
		}
		idx = mkAdd(idx, signed64(ac.regInt(a, in, o.index)))
	}
	if b.sl != nil {
		a.nload++
		rel := mkSub(idx, b.sl.Off)
		ac.fc.oblige(a.s, fmt.Sprintf("%s.asm.%s#%d", ac.fc.key, what, a.nload), "safety", nil,
			fmt.Sprintf("%s at line %d `%s` stays inside %s[0:len]", what, in.line, in.text, b.nm), mkAnd(mkLe(mkI(0), rel), mkLt(rel, b.sl.Len)), fmt.Sprintf("%s:%d", ac.fname, in.line))
		a.s.assume(mkAnd(mkLe(mkI(0), rel), mkLt(rel, b.sl.Len)))
	}
	return b.arr, idx
}

func (ac *asmCtx) load(a *astate, in asmInstr, o asmOperand) aval {
	switch o.kind {
	case "reg":
		v, ok := a.regs[o.reg]
		if !ok {
			ac.unsupported(in, "register "+o.reg+" read before it is written")
		}
		return v
	case "imm":
		return aval{t: mkInt(new(big.Int).Mod(o.imm, two64))}
	case "fp":
		v, isRes, _ := ac.paramSlot(a, in, o)
		if isRes {
			ac.unsupported(in, "read of a result slot")
		}
		return v
	case "mem":
		if b, ok := a.regs[o.base]; ok && b.glob != "" {
			return aval{t: ac.globalLoad(a, in, o, b.glob, 8)}
		}
		arr, idx := ac.memAddr(a, in, o, "load")
		el := ac.fc.memSel(a.s.heap, arr, idx)
		a.s.assume(mkAnd(mkLe(mkI(0), el), mkLt(el, mkInt(two64))))
		return aval{t: el}
	}
	ac.unsupported(in, "operand "+o.text)
	return aval{}
}

// globalWords lays a constant table out as 64-bit little-endian words (gc/amd64 sizes).
func (ac *asmCtx) globalWords(in asmInstr, name string) []*Term {
	gi := ac.fc.eng.globals[name]
	at, ok := gi.G.Type().Underlying().(*types.Pointer).Elem().Underlying().(*types.Array)
	if !ok {
		ac.unsupported(in, "global "+name+" is not an array")
	}
	sizes := types.SizesFor("gc", "amd64")
	esz := sizes.Sizeof(at.Elem())
	n := at.Len()
	total := (esz*n + 7) / 8
	words := make([]*big.Int, total)
	for i := range words {
		words[i] = new(big.Int)
	}
	put := func(off, sz int64, v *Term) {
		if !v.isInt() || off/8 != (off+sz-1)/8 || v.Val.Sign() < 0 || v.Val.BitLen() > int(8*sz) {
			ac.unsupported(in, "table "+name+": field that is not a plain unsigned constant inside one word")
		}
		words[off/8].Or(words[off/8], new(big.Int).Lsh(v.Val, uint(8*(off%8))))
	}
	switch gi.Kind {
	case "table":
		for i := int64(0); i < n; i++ {
			put(i*esz, esz, gi.Ints[i])
		}
	case "structtable":
		st := at.Elem().Underlying().(*types.Struct)
		var fields []*types.Var
		for i := 0; i < st.NumFields(); i++ {
			fields = append(fields, st.Field(i))
		}
		offs := sizes.Offsetsof(fields)
		for r := int64(0); r < n; r++ {
			for i, f := range fields {
				put(r*esz+offs[i], sizes.Sizeof(f.Type()), gi.Fields[f.Name()][r])
			}
		}
	}
	var out []*Term
	for _, w := range words {
		out = append(out, mkInt(w))
	}
	return out
}

// globalLoad reads size bytes (8, or 2 at the start of a word) from a constant table.
func (ac *asmCtx) globalLoad(a *astate, in asmInstr, o asmOperand, name string, size int64) *Term {
	if o.disp%8 != 0 {
		ac.unsupported(in, "unaligned displacement into a table")
	}
	idx := mkI(o.disp / 8)
	if o.index != "" {
		if o.scale != 8 {
			ac.unsupported(in, "index scale other than 8")
		}
		idx = mkAdd(idx, signed64(ac.regInt(a, in, o.index)))
	}
	words := ac.globalWords(in, name)
	ac.fc.usedGlobals[name] = true
	a.nload++
	inb := mkAnd(mkLe(mkI(0), idx), mkLt(idx, mkI(int64(len(words)))))
	ac.fc.oblige(a.s, fmt.Sprintf("%s.asm.tableload#%d", ac.fc.key, a.nload), "safety", nil,
		fmt.Sprintf("load at line %d `%s` stays inside the table %s", in.line, in.text, name), inb, fmt.Sprintf("%s:%d", ac.fname, in.line))
	a.s.assume(inb)
	var w *Term
	if idx.isInt() && idx.Val.IsInt64() && idx.Val.Int64() >= 0 && idx.Val.Int64() < int64(len(words)) {
		w = words[idx.Val.Int64()]
	} else {
		w = mkSelect(ac.fc.tableTerm("TW_"+name, words), idx)
	}
	if size == 2 {
		return mkMod(w, mkI(65536))
	}
	return w
}

func (ac *asmCtx) store(a *astate, in asmInstr, o asmOperand, v aval) {
	switch o.kind {
	case "reg":
		a.regs[o.reg] = v
	case "fp":
		_, isRes, rn := ac.paramSlot(a, in, o)
		if !isRes {
			ac.unsupported(in, "store to an argument slot")
		}
		if v.ptr {
			ac.unsupported(in, "pointer stored to a result")
		}
		a.res[rn] = v.t
	case "mem":
		if v.ptr {
			ac.unsupported(in, "pointer stored to memory")
		}
		arr, idx := ac.memAddr(a, in, o, "store")
		ac.nstore++
		ac.fc.checkMemWrite(a.s, nil, arr, idx, idx, fmt.Sprintf("asm store#%d line %d", a.nload, in.line))
		mem := ac.fc.heapCur(a.s, "Mem", SMem)
		a.s.heap["Mem"] = mkStore(mem, arr, mkStore(mkSelect(mem, arr), idx, v.t))
	default:
		ac.unsupported(in, "destination "+o.text)
	}
}

func (a *astate) setLogicFlags(r *Term) {
	a.cf = tFalse
	a.zf = mkEq(r, mkI(0))
	a.lt = mkGe(r, mkInt(two63))
}

// step executes one instruction; it returns the successor states (0, 1 or 2).
func (ac *asmCtx) step(a *astate) []*astate {
	in := a.inRt.instrs[a.pc]
	next := func() []*astate { a.pc++; return []*astate{a} }
	B := func(i int) asmOperand { return in.args[i] }
	intOf := func(v aval) *Term {
		if v.ptr {
			ac.unsupported(in, "pointer used in arithmetic")
		}
		return v.t
	}
	switch in.op {
	case "NOP":
		return next()
	case "MOVQ":
		ac.store(a, in, B(1), ac.load(a, in, B(0)))
		return next()
	case "LEAQ":
		o := B(0)
		if o.kind == "sym" {
			gi := ac.fc.eng.globals[o.name]
			if gi == nil || (gi.Kind != "structtable" && gi.Kind != "table") {
				ac.unsupported(in, "address of a symbol that is not a constant table")
			}
			ac.store(a, in, B(1), aval{ptr: true, glob: o.name})
			return next()
		}
		if o.kind != "mem" {
			ac.unsupported(in, "LEAQ of "+o.text)
		}
		b, ok := a.regs[o.base]
		if !ok {
			ac.unsupported(in, "register "+o.base+" read before it is written")
		}
		if b.ptr {
			ac.unsupported(in, "LEAQ on a pointer")
		}
		t := mkAdd(b.t, mkI(o.disp))
		if o.index != "" {
			t = mkAdd(t, mkMul(ac.regInt(a, in, o.index), mkI(o.scale)))
		}
		ac.store(a, in, B(1), aval{t: wrap64(t)})
		return next()
	case "ADDQ", "ADCQ":
		x, y := intOf(ac.load(a, in, B(0))), intOf(ac.load(a, in, B(1)))
		sum := mkAdd(x, y)
		ssum := mkAdd(signed64(x), signed64(y))
		if in.op == "ADCQ" {
			if a.cf == nil {
				ac.unsupported(in, "carry flag undefined")
			}
			c := mkIte(a.cf, mkI(1), mkI(0))
			sum = mkAdd(sum, c)
			ssum = mkAdd(ssum, c)
		}
		r := wrap64(sum)
		ac.store(a, in, B(1), aval{t: r})
		a.cf = mkGe(sum, mkInt(two64))
		a.zf = mkEq(r, mkI(0))
		a.lt = mkLt(ssum, mkI(0))
		return next()
	case "SUBQ", "SBBQ", "CMPQ":
		if (in.op == "SBBQ" || in.op == "SUBQ") && B(0).kind == "reg" && B(1).kind == "reg" && B(0).reg == B(1).reg {
			// R - R - CF: the old value of R is irrelevant (carry materialisation idiom)
			r := mkI(0)
			if in.op == "SBBQ" {
				if a.cf == nil {
					ac.unsupported(in, "carry flag undefined")
				}
				r = mkIte(a.cf, mkInt(m64), mkI(0))
			} else {
				a.cf = tFalse
			}
			ac.store(a, in, B(1), aval{t: r})
			a.zf = mkEq(r, mkI(0))
			a.lt = mkNot(mkEq(r, mkI(0)))
			return next()
		}
		var x, y *Term // computes y - x (dst - src); CMPQ a, b computes a - b
		if in.op == "CMPQ" {
			va, vb := ac.load(a, in, B(0)), ac.load(a, in, B(1))
			if va.ptr && vb.ptr {
				// pointer comparison: only equality is meaningful
				a.cf, a.lt = nil, nil
				a.zf = mkAnd(mkEq(va.arr, vb.arr), mkEq(va.off, vb.off))
				return next()
			}
			y, x = intOf(va), intOf(vb)
		} else {
			x, y = intOf(ac.load(a, in, B(0))), intOf(ac.load(a, in, B(1)))
		}
		diff := mkSub(y, x)
		sdiff := mkSub(signed64(y), signed64(x))
		if in.op == "SBBQ" {
			if a.cf == nil {
				ac.unsupported(in, "carry flag undefined")
			}
			c := mkIte(a.cf, mkI(1), mkI(0))
			diff = mkSub(diff, c)
			sdiff = mkSub(sdiff, c)
		}
		r := wrap64(diff)
		if in.op != "CMPQ" {
			ac.store(a, in, B(1), aval{t: r})
		}
		a.cf = mkLt(diff, mkI(0))
		a.zf = mkEq(r, mkI(0))
		a.lt = mkLt(sdiff, mkI(0))
		return next()
	case "NEGQ":
		x := intOf(ac.load(a, in, B(0)))
		r := wrap64(mkNeg(x))
		ac.store(a, in, B(0), aval{t: r})
		a.cf = mkNot(mkEq(x, mkI(0)))
		a.zf = mkEq(r, mkI(0))
		a.lt = mkLt(mkNeg(signed64(x)), mkI(0))
		return next()
	case "NOTQ":
		x := intOf(ac.load(a, in, B(0)))
		ac.store(a, in, B(0), aval{t: mkSub(mkInt(m64), x)})
		return next()
	case "ANDQ", "ORQ", "XORQ", "TESTQ":
		if in.op == "XORQ" && B(0).kind == "reg" && B(1).kind == "reg" && B(0).reg == B(1).reg {
			// zeroing idiom: the old value is irrelevant
			ac.store(a, in, B(1), aval{t: mkI(0)})
			a.setLogicFlags(mkI(0))
			return next()
		}
		x, y := intOf(ac.load(a, in, B(0))), intOf(ac.load(a, in, B(1)))
		var r *Term
		switch in.op {
		case "ANDQ", "TESTQ":
			if x == y {
				r = x
			} else {
				r = ac.fc.bitAnd(a.s, ac.uit, x, y)
			}
		case "ORQ":
			if x == y {
				r = x
			} else {
				r = ac.fc.bitOr(a.s, ac.uit, x, y)
			}
		case "XORQ":
			if x == y {
				r = mkI(0)
			} else {
				r = ac.fc.bitXor(a.s, ac.uit, x, y)
			}
		}
		if in.op != "TESTQ" {
			ac.store(a, in, B(1), aval{t: r})
		}
		a.setLogicFlags(r)
		return next()
	case "MOVWLZX":
		o := B(0)
		b, ok := a.regs[o.base]
		if o.kind != "mem" || !ok || b.glob == "" {
			ac.unsupported(in, "16-bit load from anything but a constant table")
		}
		ac.store(a, in, B(1), aval{t: ac.globalLoad(a, in, o, b.glob, 2)})
		return next()
	case "RORW":
		// rotate the low 16 bits; only the byte swap (count 8) is modelled
		if B(0).kind != "imm" || B(0).imm.Int64() != 8 {
			ac.unsupported(in, "RORW with a count other than 8")
		}
		x := intOf(ac.load(a, in, B(1)))
		low := mkMod(x, mkI(65536))
		r := mkAdd(mkSub(x, low), mkMul(mkMod(low, mkI(256)), mkI(256)), mkDiv(low, mkI(256)))
		ac.store(a, in, B(1), aval{t: r})
		a.cf, a.zf, a.lt = nil, nil, nil
		return next()
	case "SARQ", "SHRQ", "SHLQ":
		var k uint
		switch {
		case B(0).kind == "imm":
			k = uint(B(0).imm.Uint64())
		case B(0).kind == "reg" && B(0).reg == "CX":
			// count in CL, taken modulo 64; it has to be a literal at this point (after a
			// split on the shift parameter, or pinned by a label invariant `CX == literal`)
			c := mkMod(ac.regInt(a, in, "CX"), mkI(64))
			if !c.isInt() {
				ac.unsupported(in, "shift by a register whose value is not a literal on this path: "+c.String())
			}
			k = uint(c.Val.Uint64())
		default:
			ac.unsupported(in, "shift count operand")
		}
		x := intOf(ac.load(a, in, B(1)))
		var r *Term
		switch in.op {
		case "SHRQ":
			r = mkDiv(x, mkInt(pow2(k)))
		case "SHLQ":
			r = wrap64(mkMul(x, mkInt(pow2(k))))
		case "SARQ":
			if k == 63 {
				r = mkIte(mkGe(x, mkInt(two63)), mkInt(m64), mkI(0))
			} else {
				r = wrap64(mkDiv(signed64(x), mkInt(pow2(k))))
			}
		}
		ac.store(a, in, B(1), aval{t: r})
		a.cf, a.lt = nil, nil
		a.zf = mkEq(r, mkI(0))
		return next()
	case "MULQ":
		x := intOf(ac.load(a, in, B(0)))
		ax := ac.regInt(a, in, "AX")
		p := mkMul(ax, x)
		hi := ac.fc.fresh("mulhi", SInt)
		lo := ac.fc.fresh("mullo", SInt)
		a.s.assume(mkAnd(mkEq(p, mkAdd(mkMul(hi, mkInt(two64)), lo)), mkLe(mkI(0), lo), mkLt(lo, mkInt(two64)), mkLe(mkI(0), hi), mkLt(hi, mkInt(two64))))
		a.regs["AX"] = aval{t: lo}
		a.regs["DX"] = aval{t: hi}
		a.cf, a.zf, a.lt = nil, nil, nil
		return next()
	case "DIVQ":
		d := intOf(ac.load(a, in, B(0)))
		ax, dx := ac.regInt(a, in, "AX"), ac.regInt(a, in, "DX")
		a.nload++
		ac.fc.oblige(a.s, fmt.Sprintf("%s.asm.divq#%d", ac.fc.key, a.nload), "safety", nil,
			fmt.Sprintf("DIVQ at line %d does not fault: divisor != 0 and the quotient fits (DX < divisor)", in.line), mkAnd(mkNot(mkEq(d, mkI(0))), mkLt(dx, d)), fmt.Sprintf("%s:%d", ac.fname, in.line))
		a.s.assume(mkAnd(mkNot(mkEq(d, mkI(0))), mkLt(dx, d)))
		q := ac.fc.fresh("divq", SInt)
		r := ac.fc.fresh("divr", SInt)
		n := mkAdd(mkMul(dx, mkInt(two64)), ax)
		a.s.assume(mkAnd(mkEq(n, mkAdd(mkMul(q, d), r)), mkLe(mkI(0), r), mkLt(r, d), mkLe(mkI(0), q), mkLt(q, mkInt(two64))))
		a.regs["AX"] = aval{t: q}
		a.regs["DX"] = aval{t: r}
		a.cf, a.zf, a.lt = nil, nil, nil
		return next()
	case "RET":
		return nil
	case "JMP", "JL", "JLE", "JG", "JGE", "JEQ", "JNE", "JCC", "JCS", "JLT", "JGT":
		tgt := B(0)
		var cond *Term
		need := func(t *Term, what string) *Term {
			if t == nil {
				ac.unsupported(in, "flag "+what+" undefined at a conditional jump")
			}
			return t
		}
		switch in.op {
		case "JMP":
			cond = tTrue
		case "JL", "JLT":
			cond = need(a.lt, "SF/OF")
		case "JGE":
			cond = mkNot(need(a.lt, "SF/OF"))
		case "JLE":
			cond = mkOr(need(a.lt, "SF/OF"), need(a.zf, "ZF"))
		case "JG", "JGT":
			cond = mkAnd(mkNot(need(a.lt, "SF/OF")), mkNot(need(a.zf, "ZF")))
		case "JEQ":
			cond = need(a.zf, "ZF")
		case "JNE":
			cond = mkNot(need(a.zf, "ZF"))
		case "JCC":
			cond = mkNot(need(a.cf, "CF"))
		case "JCS":
			cond = need(a.cf, "CF")
		}
		var out []*astate
		if !cond.isFalse() {
			t := a
			if !cond.isTrue() {
				t = a.clone()
			}
			t.s.assume(cond)
			t.s.trace = append(t.s.trace, fmt.Sprintf("L%d:%s taken", in.line, in.op))
			if tgt.kind == "sym" {
				rt2 := ac.file[tgt.name]
				if rt2 == nil {
					ac.unsupported(in, "tail jump to unknown routine "+tgt.name)
				}
				if in.op != "JMP" {
					ac.unsupported(in, "conditional tail jump")
				}
				t.inRt, t.pc = rt2, 0
			} else {
				idx, ok := t.inRt.labels[tgt.name]
				if !ok {
					ac.unsupported(in, "unknown label "+tgt.name)
				}
				t.pc = idx
			}
			out = append(out, t)
		}
		if !cond.isTrue() {
			a.s.assume(mkNot(cond))
			a.s.trace = append(a.s.trace, fmt.Sprintf("L%d:%s not taken", in.line, in.op))
			a.pc++
			out = append(out, a)
		}
		return out
	}
	ac.unsupported(in, "instruction outside the modelled subset")
	return nil
}

// asmHint applies one hint at an assembly program point.  `forget(R1, R2, ...)` is a
// summarising cut: the listed registers get fresh values and the path condition is reduced
// to what held at the last loop head plus the facts established by hints since then (sound:
// only hypotheses are dropped).  It keeps the instruction-level detail of a long
// straight-line block out of the queries that follow it.
func (ac *asmCtx) asmHint(a *astate, h *Hint, where string) {
	if h.E != nil && h.E.Kind == "call" && (h.E.Name == "forget" || h.E.Name == "forget0") {
		// forget(R1, ..., Rk, fact): prove fact, give R1..Rk fresh values, keep only the
		// hypotheses of the loop head, the hint facts since then, and fact over the new values
		n := len(h.E.Args)
		if n < 2 {
			panic(unsupported("forget(R1, ..., fact): " + h.Text))
		}
		factE := h.E.Args[n-1]
		g := ac.fc.evalSpecBool(ac.regEnv(a), factE)
		ac.fc.oblige(a.s, fmt.Sprintf("%s.cut@%s", ac.fc.key, strings.ReplaceAll(where, " ", "")), "assert", h.Props, h.Text, g, where)
		for _, arg := range h.E.Args[:n-1] {
			if arg.Kind != "ident" || !asmRegs[arg.Name] {
				panic(unsupported("forget(...) takes register names: " + h.Text))
			}
			nv := ac.fc.fresh("asm_"+arg.Name+"_cut", SInt)
			a.regs[arg.Name] = aval{t: nv}
		}
		keepCF := a.cf != nil && exprMentions(factE, "CF")
		a.cf, a.zf, a.lt = nil, nil, nil
		if keepCF {
			// the fact speaks about the carry flag: it survives the cut as a fresh boolean
			// constrained by the fact only
			a.cf = ac.fc.fresh("asm_CF_cut", SBool)
		}
		keep := a.headPC
		if h.E.Name == "forget0" {
			keep = ac.entryPC // after a loop: back to the hypotheses of the function entry
		}
		if keep > 0 && keep <= len(a.s.pc) {
			// keep the loop-head hypotheses (head hints included: headPC is taken after them)
			a.s.pc = append([]*Term(nil), a.s.pc[:keep]...)
			a.cutFacts = nil
		}
		if h.E.Name == "forget0" && len(a.s.frames) > 0 {
			// memory as at entry except for the function's own frame, which gets fresh
			// contents (the fact re-assumed below says what is known about them); loop
			// frames are left behind
			a.s.frames = a.s.frames[:1]
			for k := range a.s.heap {
				if _, ok := ac.fc.oldHeap[k]; !ok {
					delete(a.s.heap, k) // created lazily after entry: back to the entry constant
				}
			}
			for k, v := range ac.fc.oldHeap {
				a.s.heap[k] = v
			}
			ac.fc.havocFrame(a.s, a.s.frames[0], ac.fc.oldHeap)
		}
		for _, arg := range h.E.Args[:n-1] {
			v := a.regs[arg.Name].t
			a.s.assume(mkAnd(mkLe(mkI(0), v), mkLt(v, mkInt(two64))))
		}
		f2 := ac.fc.evalSpecBool(ac.regEnv(a), factE)
		a.s.assume(f2)
		a.cutFacts = append(a.cutFacts, f2)
		return
	}
	n0 := len(a.s.pc)
	ac.fc.applyHint(a.s, ac.regEnv(a), h, where)
	if len(a.s.pc) > n0 {
		a.cutFacts = append(a.cutFacts, a.s.pc[n0:]...)
	}
}

func exprMentions(e *Expr, name string) bool {
	if e == nil {
		return false
	}
	if e.Kind == "ident" && e.Name == name {
		return true
	}
	for _, a := range e.Args {
		if exprMentions(a, name) {
			return true
		}
	}
	return false
}

// regEnv builds the spec environment at an assembly program point: parameters by name,
// integer registers by name, results written so far.
func (ac *asmCtx) regEnv(a *astate) *Env {
	names := map[string]Val{}
	for k, v := range ac.fc.entry {
		names[k] = v
	}
	for r, v := range a.regs {
		if !v.ptr {
			names[r] = mathInt(v.t)
		}
	}
	for r, t := range a.head {
		names[r+"_0"] = mathInt(t)
	}
	res := ac.sig.Results()
	for i := 0; i < res.Len(); i++ {
		n := res.At(i).Name()
		if t, ok := a.res[n]; ok {
			names[n] = intVal(t, res.At(i).Type())
			if al := ac.resAlias[n]; al != "" {
				names[al] = names[n]
			}
			names[fmt.Sprintf("result%d", i)] = names[n]
			if i == 0 {
				names["result"] = names[n]
			}
		}
	}
	if a.cf != nil {
		names["CF"] = boolVal(a.cf)
	}
	return &Env{fc: ac.fc, names: names, heap: a.s.heap, oldNames: ac.fc.entry, oldHeap: ac.fc.oldHeap, pos: ac.fc.fn.Pos(), nalloc0: ac.fc.nalloc0, nobj0: ac.fc.nobj0}
}

// loopWritten returns the registers written by the instructions that lie on a cycle through
// the label (reachable from it and able to reach it again).
func loopWritten(rt *asmRoutine, label string) map[string]bool {
	n := len(rt.instrs)
	succ := make([][]int, n)
	for i, in := range rt.instrs {
		isJump := len(in.op) > 0 && in.op[0] == 'J'
		if isJump && len(in.args) == 1 && in.args[0].kind == "label" {
			if t, ok := rt.labels[in.args[0].name]; ok {
				succ[i] = append(succ[i], t)
			}
		}
		if in.op == "RET" || in.op == "JMP" {
			continue
		}
		if i+1 < n {
			succ[i] = append(succ[i], i+1)
		}
	}
	start := rt.labels[label]
	fwd := make([]bool, n)
	var dfs func(i int)
	dfs = func(i int) {
		if fwd[i] {
			return
		}
		fwd[i] = true
		for _, j := range succ[i] {
			dfs(j)
		}
	}
	dfs(start)
	// backward reachability to start
	pred := make([][]int, n)
	for i := range succ {
		for _, j := range succ[i] {
			pred[j] = append(pred[j], i)
		}
	}
	bwd := make([]bool, n)
	var dfb func(i int)
	dfb = func(i int) {
		if bwd[i] {
			return
		}
		bwd[i] = true
		for _, j := range pred[i] {
			dfb(j)
		}
	}
	dfb(start)
	w := map[string]bool{}
	for i := 0; i < n; i++ {
		if !(fwd[i] && bwd[i]) {
			continue
		}
		in := rt.instrs[i]
		switch in.op {
		case "MULQ", "DIVQ":
			w["AX"], w["DX"] = true, true
		case "CMPQ", "TESTQ", "NOP", "RET":
		default:
			if len(in.op) > 0 && in.op[0] == 'J' {
				continue
			}
			if k := len(in.args); k > 0 && in.args[k-1].kind == "reg" {
				w[in.args[k-1].reg] = true
			}
			if k := len(in.args); k > 0 && in.args[k-1].kind == "fp" {
				w["fp:"+in.args[k-1].name] = true // a result slot written inside the loop
			}
		}
	}
	return w
}

// runAsm generates the obligations of an assembly routine against its contract.
func (fc *FnCtx) runAsm(repo string) (err error) {
	defer func() {
		if r := recover(); r != nil {
			if u, ok := r.(unsupported); ok {
				err = fmt.Errorf("%s: outside the modelled subset: %s", fc.key, string(u))
				return
			}
			panic(r)
		}
	}()
	file, perr := parseAsmFile(filepath.Join(repo, fc.ct.AsmFile), fc.eng.overlay)
	if perr != nil {
		return perr
	}
	rt := file[fc.fn.Name()]
	if rt == nil {
		return fmt.Errorf("%s: no TEXT %s in %s", fc.key, fc.fn.Name(), fc.ct.AsmFile)
	}
	uit, _ := intTypeOf(types.Typ[types.Uint64])
	ac := &asmCtx{fc: fc, file: file, rt: rt, sig: fc.fn.Signature, uit: uit, fname: fc.ct.AsmFile}
	s := &State{cells: map[*Cell]Val{}, regs: nil, allocs: nil, heap: map[string]*Term{}, entered: nil}
	fc.nalloc0 = mkConst("nalloc0", SInt)
	fc.nobj0 = mkConst("nobj0", SInt)
	s.heap["nalloc"] = fc.nalloc0
	s.heap["nobj"] = fc.nobj0
	s.assume(mkLe(mkI(1), fc.nalloc0))
	s.assume(mkLe(mkI(1), fc.nobj0))
	ei := &EntryInfo{}
	ps := fc.fn.Signature.Params()
	for i := 0; i < ps.Len(); i++ {
		p := ps.At(i)
		v := fc.paramVal(p.Name(), p.Type())
		fc.entry[p.Name()] = v
		fc.entryOrder = append(fc.entryOrder, p.Name())
		ei.Params = append(ei.Params, EntryParam{p.Name(), v})
		s.assume(fc.typeAssume(v, fc.nalloc0, fc.nobj0))
	}
	fc.entryInfo = ei
	// the contract header may name the parameters and results like the _g twin does
	hp, hr := headerNames(fc.ct.Header)
	if len(hp) == ps.Len() {
		for i, n := range hp {
			if _, ok := fc.entry[n]; !ok {
				fc.entry[n] = fc.entry[ps.At(i).Name()]
			}
		}
	}
	ac.resAlias = map[string]string{}
	if rs := fc.fn.Signature.Results(); len(hr) == rs.Len() {
		for i, n := range hr {
			ac.resAlias[rs.At(i).Name()] = n
		}
	}
	fc.globalAssumptions(s)
	fc.oldHeap = s.snapshotHeap()
	fr := &Frame{NAlloc0: fc.nalloc0, NObj0: fc.nobj0, Declared: true, What: fc.key}
	env := fc.entryEnv(s)
	for _, m := range fc.ct.Modifies {
		fc.addFrameEntry(fr, env, m)
	}
	s.frames = []*Frame{fr}
	for _, r := range fc.ct.Requires {
		s.assume(fc.evalSpecBool(env, r.E))
	}
	fc.oldHeap = s.snapshotHeap()
	fc.usedAssumed["assembly ABI0 frame layout as named in the operands (name+off(FP)); flags after MULQ/DIVQ unspecified"] = true

	// `split p in lo..hi` on an integer parameter: one run per value, the parameter being
	// that literal (table indices and shift counts derived from it then fold to constants)
	type splitCase struct {
		name string
		k    int64
	}
	cases := [][]splitCase{nil}
	for _, sp := range fc.ct.Splits {
		if sp.Table != "" || sp.Expr != nil || len(sp.For) > 0 {
			return fmt.Errorf("%s: only `split param in lo..hi` is available for assembly routines", fc.key)
		}
		if pv, ok := fc.entry[sp.Var]; !ok || pv.K != VInt {
			return fmt.Errorf("%s: split over %s: not an integer parameter", fc.key, sp.Var)
		}
		var next [][]splitCase
		for _, c := range cases {
			for k := sp.Lo; k <= sp.Hi; k++ {
				next = append(next, append(append([]splitCase(nil), c...), splitCase{sp.Var, int64(k)}))
			}
		}
		cases = next
	}
	entry0 := map[string]Val{}
	for k, v := range fc.entry {
		entry0[k] = v
	}
	for _, cs := range cases {
		s := s.clone()
		for k, v := range entry0 {
			fc.entry[k] = v
		}
		for _, c := range cs {
			pv := entry0[c.name]
			s.assume(mkEq(pv.T, mkI(c.k)))
			lit := intVal(mkI(c.k), pv.Typ)
			for k, v := range entry0 {
				if v.K == VInt && v.T == pv.T {
					fc.entry[k] = lit // the parameter and its header alias
				}
			}
			s.trace = append(s.trace, fmt.Sprintf("split %s=%d", c.name, c.k))
		}
		if err := ac.explore(s, rt); err != nil {
			return err
		}
	}
	return nil
}

// explore runs the routine from its first instruction in entry state s.
func (ac *asmCtx) explore(s *State, rt *asmRoutine) error {
	fc := ac.fc
	start := &astate{regs: map[string]aval{}, s: s, res: map[string]*Term{}, seen: map[string]int{}, inRt: rt}
	for _, h := range fc.ct.Hints {
		if h.Where == "entry" {
			fc.applyHint(start.s, ac.regEnv(start), h, "entry")
		}
	}
	ac.entryPC = len(start.s.pc)
	work := []*astate{start}
	steps := 0
	for len(work) > 0 {
		a := work[len(work)-1]
		work = work[:len(work)-1]
		for {
			steps++
			if steps > 200000 {
				return fmt.Errorf("%s: assembly execution does not terminate (missing label invariant?)", fc.key)
			}
			if a.pc >= len(a.inRt.instrs) {
				return fmt.Errorf("%s: fell off the end of TEXT %s", fc.key, a.inRt.name)
			}
			in := a.inRt.instrs[a.pc]
			if in.label != "" {
				lkey := in.label
				if a.inRt != rt {
					lkey = a.inRt.name + "." + in.label // label of a tail-called routine
				}
				if ls := fc.ct.Labels[lkey]; ls != nil && len(ls.Invs) > 0 {
					key := lkey
					env := ac.regEnv(a)
					if a.seen[key] > 0 {
						// back edge (or second arrival): the invariant must hold; the path ends here
						fc.npaths++
						for _, h := range ls.Hints {
							if h.Where == "back" {
								fc.applyHint(a.s, env, h, "label "+key+" back edge")
							}
						}
						for _, inv := range ls.Invs {
							fc.oblige(a.s, fmt.Sprintf("%s.label[%s].invariant[%s].preserved", fc.key, key, inv.Label), "invariant", inv.Props, inv.Text, fc.evalSpecBool(env, inv.E), "jump to "+key)
						}
						break
					}
					for _, inv := range ls.Invs {
						fc.oblige(a.s, fmt.Sprintf("%s.label[%s].invariant[%s].entry", fc.key, key, inv.Label), "invariant", inv.Props, inv.Text, fc.evalSpecBool(env, inv.E), "first arrival at "+key)
					}
					// havoc what the loop writes
					a = a.clone()
					a.seen[key]++
					w := loopWritten(a.inRt, in.label)
					var ws []string
					for r := range w {
						ws = append(ws, r)
					}
					sort.Strings(ws)
					for _, r := range ws {
						if strings.HasPrefix(r, "fp:") {
							// written somewhere in the loop: unknown at the head
							a.res[strings.TrimPrefix(r, "fp:")] = fc.fresh("asm_res_"+key, SInt)
							continue
						}
						if old, ok := a.regs[r]; ok && old.ptr {
							panic(unsupported(fmt.Sprintf("assembly: loop %s overwrites the pointer register %s", key, r)))
						}
						nv := fc.fresh("asm_"+r+"_"+key, SInt)
						a.s.assume(mkAnd(mkLe(mkI(0), nv), mkLt(nv, mkInt(two64))))
						a.regs[r] = aval{t: nv}
					}
					a.cf, a.zf, a.lt = nil, nil, nil
					frame := &Frame{NAlloc0: a.s.heap["nalloc"], NObj0: a.s.heap["nobj"], What: "label " + key}
					if ls.HasMod {
						frame.Declared = true
						for _, m := range ls.Modifies {
							fc.addFrameEntry(frame, env, m)
						}
						old := a.s.snapshotHeap()
						fc.havocFrame(a.s, frame, old)
					} else {
						a.s.heap["Mem"] = fc.fresh("L_Mem", SMem)
					}
					a.s.frames = append(a.s.frames, frame)
					a.head = map[string]*Term{}
					for r, v := range a.regs {
						if !v.ptr {
							a.head[r] = v.t
						}
					}
					env2 := ac.regEnv(a)
					for _, inv := range ls.Invs {
						f := fc.evalSpecBool(env2, inv.E)
						a.s.assume(f)
						// a conjunct `R == literal` pins the register to that literal
						for _, cj := range splitConj(f, 64) {
							if cj.Op == "=" && len(cj.Args) == 2 {
								x, y := cj.Args[0], cj.Args[1]
								if x.isInt() {
									x, y = y, x
								}
								if y.isInt() {
									for r, v := range a.regs {
										if !v.ptr && v.t == x {
											a.regs[r] = aval{t: y}
										}
									}
								}
							}
						}
					}
					for _, h := range ls.Hints {
						if h.Where == "head" {
							ac.asmHint(a, h, "label "+key+" head")
						}
					}
					a.headPC = len(a.s.pc)
					a.cutFacts = nil
					a.s.trace = append(a.s.trace, "label "+key)
				} else if a.seen["plain:"+lkey] > 3 {
					return fmt.Errorf("%s: label %s is reached repeatedly and has no invariant", fc.key, lkey)
				} else {
					a.seen["plain:"+lkey]++
				}
			}
			// hints attached to `label L+k`: the k-th instruction after label L
			{
				for lk, ls := range fc.ct.Labels {
					i := strings.Index(lk, "+")
					if i < 0 {
						continue
					}
					lname := lk[:i]
					if a.inRt != rt {
						if !strings.HasPrefix(lname, a.inRt.name+".") {
							continue
						}
						lname = strings.TrimPrefix(lname, a.inRt.name+".")
					} else if strings.Contains(lname, ".") {
						continue
					}
					base, ok := a.inRt.labels[lname]
					if lname == "$entry" {
						base, ok = 0, true // the routine's first instruction
					}
					off, err := strconv.Atoi(lk[i+1:])
					if !ok || err != nil || base+off != a.pc {
						continue
					}
					for _, h := range ls.Hints {
						ac.asmHint(a, h, "at "+lk)
					}
				}
			}
			if in.op == "RET" {
				ac.atRet(a)
				break
			}
			succ := ac.step(a)
			if len(succ) == 0 {
				break
			}
			a = succ[0]
			work = append(work, succ[1:]...)
		}
	}
	return nil
}

func (ac *asmCtx) atRet(a *astate) {
	fc := ac.fc
	fc.npaths++
	fc.normalExits++
	fc.covers = append(fc.covers, &Obligation{frames: fc.frames, Func: fc.key, Name: fmt.Sprintf("%s.cover.return#%d", fc.key, fc.normalExits), Kind: "cover",
		Hyps: a.s.pc[:len(a.s.pc):len(a.s.pc)], Goal: tFalse, Trace: a.s.trace, PathID: fc.npaths})
	res := ac.sig.Results()
	for i := 0; i < res.Len(); i++ {
		if _, ok := a.res[res.At(i).Name()]; !ok {
			fc.oblige(a.s, fmt.Sprintf("%s.asm.result[%s]", fc.key, res.At(i).Name()), "safety", nil, "every result slot is written before RET", tFalse, "RET")
			a.res[res.At(i).Name()] = fc.fresh("unset_"+res.At(i).Name(), SInt)
		}
	}
	env := ac.regEnv(a)
	for _, h := range fc.ct.Hints {
		if h.Where == "ret" || h.Where == "exit" {
			fc.applyHint(a.s, env, h, "return")
		}
	}
	for _, c := range fc.ct.Ensures {
		if c.Assumed {
			continue
		}
		fc.oblige(a.s, fmt.Sprintf("%s.ensures[%s]", fc.key, c.Label), "ensures", c.Props, c.Text, fc.evalSpecBool(env, c.E), "RET")
	}
}

// headerNames extracts parameter and result names from a contract header
// `func name(a, b T, c U) (r, s V)`.
func headerNames(h string) (params, results []string) {
	groups := []string{}
	depth, start := 0, -1
	for i, c := range h {
		switch c {
		case '(':
			if depth == 0 {
				start = i + 1
			}
			depth++
		case ')':
			depth--
			if depth == 0 && start >= 0 {
				groups = append(groups, h[start:i])
			}
		}
	}
	names := func(g string) []string {
		var out []string
		for _, p := range strings.Split(g, ",") {
			f := strings.Fields(strings.TrimSpace(p))
			if len(f) > 0 {
				out = append(out, f[0])
			}
		}
		return out
	}
	// skip a receiver group: `func (z dec) name(...)`
	idx := 0
	if strings.HasPrefix(strings.TrimSpace(strings.TrimPrefix(strings.TrimSpace(h), "func")), "(") && len(groups) > 0 {
		idx = 1
	}
	if idx < len(groups) {
		params = names(groups[idx])
	}
	if idx+1 < len(groups) {
		results = names(groups[idx+1])
	}
	return
}
