package main

// Replay of solver models against the real code.  The entry state of the failing
// path (parameters, the Decimals they point to, slice headers and the first words of
// every slice) is read back from the solver with get-value, turned into an in-package
// Go test that builds exactly that state, runs the real function and reports what it
// did; the engine then evaluates the violated clause on the observed result.

import (
	"fmt"
	"go/types"
	"os"
	"os/exec"
	"path/filepath"
	"regexp"
	"sort"
	"strings"
)

type ReplayResult struct {
	Body      map[string]interface{}
	Confirmed bool
}

const replayWords = 6

// entryTerms lists the terms whose model values describe the entry state.
func (e *Engine) entryTerms(o *Obligation) (names []string, terms []*Term) {
	if o.Entry == nil {
		return
	}
	add := func(n string, t *Term) {
		names = append(names, n)
		terms = append(terms, t)
	}
	mem := mkConst("H_Mem", SMem)
	addSlice := func(n string, v Val) {
		add(n+".arr", v.Arr)
		add(n+".off", v.Off)
		add(n+".len", v.Len)
		add(n+".cap", v.Cap)
		for i := 0; i < replayWords; i++ {
			add(fmt.Sprintf("%s[%d]", n, i), mkSelect(mkSelect(mem, v.Arr), mkAdd(v.Off, mkI(int64(i)))))
		}
	}
	for _, p := range o.Entry.Params {
		switch p.Val.K {
		case VInt, VBool, VOpaque:
			add(p.Name, p.Val.T)
		case VSlice:
			addSlice(p.Name, p.Val)
		case VPtr:
			add(p.Name, p.Val.T)
			st, sname, ok := structOf(p.Val.Typ)
			if !ok {
				continue
			}
			for i := 0; i < st.NumFields(); i++ {
				f := st.Field(i)
				key := fieldKey(sname, f.Name())
				switch f.Type().Underlying().(type) {
				case *types.Slice:
					sv := sliceVal(
						mkSelect(mkConst("H_"+mangle(key+".arr"), SArr), p.Val.T),
						mkSelect(mkConst("H_"+mangle(key+".off"), SArr), p.Val.T),
						mkSelect(mkConst("H_"+mangle(key+".len"), SArr), p.Val.T),
						mkSelect(mkConst("H_"+mangle(key+".cap"), SArr), p.Val.T), f.Type())
					addSlice(p.Name+"."+f.Name(), sv)
				default:
					srt := SArr
					if isBoolType(f.Type()) {
						srt = SArrB
					}
					add(p.Name+"."+f.Name(), mkSelect(mkConst("H_"+mangle(key), srt), p.Val.T))
				}
			}
		case VStruct:
			st := p.Val.Typ.Underlying().(*types.Struct)
			for i, el := range p.Val.Elems {
				if el.T != nil {
					add(p.Name+"."+st.Field(i).Name(), el.T)
				}
			}
		}
	}
	return
}

var valueRe = regexp.MustCompile(`^\(- (\d+)\)$`)

// parseGetValue parses the solver's answer to (get-value (t1 t2 ...)) positionally.
func parseGetValue(out string, n int) []string {
	i := strings.Index(out, "((")
	if i < 0 {
		return nil
	}
	s := out[i+1:]
	var vals []string
	depth := 0
	start := -1
	for j := 0; j < len(s) && len(vals) < n; j++ {
		switch s[j] {
		case '(':
			if depth == 0 {
				start = j
			}
			depth++
		case ')':
			depth--
			if depth == 0 && start >= 0 {
				pair := s[start+1 : j]
				vals = append(vals, lastSexp(pair))
				start = -1
			}
			if depth < 0 {
				return vals
			}
		}
	}
	return vals
}

// lastSexp returns the last top-level s-expression of s (the value in a "(term value)" pair).
func lastSexp(s string) string {
	s = strings.TrimSpace(s)
	if strings.HasSuffix(s, ")") {
		depth := 0
		for j := len(s) - 1; j >= 0; j-- {
			switch s[j] {
			case ')':
				depth++
			case '(':
				depth--
				if depth == 0 {
					return s[j:]
				}
			}
		}
	}
	if k := strings.LastIndexAny(s, " \t\n"); k >= 0 {
		return s[k+1:]
	}
	return s
}

func normValue(v string) string {
	v = strings.TrimSpace(v)
	if m := valueRe.FindStringSubmatch(v); m != nil {
		return "-" + m[1]
	}
	return v
}

// modelOf re-solves the failing query asking for the entry state.
func (e *Engine) modelOf(o *Obligation, d *Discharger) map[string]string {
	names, terms := e.entryTerms(o)
	if len(terms) == 0 || o.Result != "sat" {
		return nil
	}
	text, err := d.prepare(o, terms)
	if err != nil {
		return nil
	}
	file := filepath.Join(d.workdir, fmt.Sprintf("model_%s.smt2", mangle(o.Name)))
	os.WriteFile(file, []byte(text), 0o644)
	defer os.Remove(file)
	out, _ := exec.Command("z3-new", "-T:20", file).CombinedOutput()
	if !strings.HasPrefix(strings.TrimSpace(string(out)), "sat") {
		out, _ = exec.Command("cvc5", "--tlimit=20000", "--produce-models", file).CombinedOutput()
		if !strings.HasPrefix(strings.TrimSpace(string(out)), "sat") {
			return nil
		}
	}
	vals := parseGetValue(string(out), len(terms))
	if len(vals) != len(terms) {
		return nil
	}
	m := map[string]string{}
	for i, n := range names {
		m[n] = normValue(vals[i])
	}
	return m
}

func (e *Engine) tryReplay(verif, prop string, o *Obligation, d *Discharger) *ReplayResult {
	r := &ReplayResult{Body: map[string]interface{}{}}
	m := e.modelOf(o, d)
	if m == nil {
		r.Body["model"] = "none (the solver gave no model for this obligation)"
		return r
	}
	keys := make([]string, 0, len(m))
	for k := range m {
		keys = append(keys, k)
	}
	sort.Strings(keys)
	ordered := map[string]string{}
	for _, k := range keys {
		ordered[k] = m[k]
	}
	r.Body["model_entry_state"] = ordered
	e.replayOnCode(verif, prop, o, m, r)
	return r
}
