package main

import (
	"fmt"
	"go/types"

	"golang.org/x/tools/go/ssa"
)

type VKind int

const (
	VInt VKind = iota
	VBool
	VPtr      // address of a heap struct object (Int term; 0 = nil)
	VSlice    // (arr, off, len, cap)
	VCellPtr  // pointer to a local cell
	VFieldPtr // &obj.field
	VElemPtr  // &slice[i]
	VGlobPtr  // &global
	VGlobElem // &globalArray[i]
	VTuple
	VStruct
	VOpaque // strings, interfaces, floats, funcs: an Int-sorted identity (0 = nil for interfaces)
	VUnit
)

type Val struct {
	K     VKind
	T     *Term
	Arr   *Term
	Off   *Term
	Len   *Term
	Cap   *Term
	Cell  *Cell
	Base  *Term  // VFieldPtr: object address
	SName string // VFieldPtr: struct type name
	Field int
	Sl    *Val // VElemPtr
	Idx   *Term
	Glob  *ssa.Global
	Elems []Val
	Typ   types.Type
	Dyn   string // VOpaque interface: dynamic type if statically known ("ErrNaN", "error", "other")
}

type Cell struct {
	Name  string
	Typ   types.Type
	Alloc *ssa.Alloc
	id    int
}

func intVal(t *Term, typ types.Type) Val  { return Val{K: VInt, T: t, Typ: typ} }
func boolVal(t *Term) Val                 { return Val{K: VBool, T: t, Typ: types.Typ[types.Bool]} }
func ptrVal(t *Term, typ types.Type) Val  { return Val{K: VPtr, T: t, Typ: typ} }
func opaqueVal(t *Term, typ types.Type) Val { return Val{K: VOpaque, T: t, Typ: typ} }

func sliceVal(arr, off, ln, cp *Term, typ types.Type) Val {
	return Val{K: VSlice, Arr: arr, Off: off, Len: ln, Cap: cp, Typ: typ}
}

func nilSlice(typ types.Type) Val { return sliceVal(mkI(0), mkI(0), mkI(0), mkI(0), typ) }

func (v Val) String() string {
	switch v.K {
	case VInt, VBool, VPtr, VOpaque:
		return v.T.String()
	case VSlice:
		return fmt.Sprintf("slice(%s,%s,%s,%s)", v.Arr, v.Off, v.Len, v.Cap)
	case VTuple, VStruct:
		s := "{"
		for i, e := range v.Elems {
			if i > 0 {
				s += ", "
			}
			s += e.String()
		}
		return s + "}"
	case VCellPtr:
		return "&" + v.Cell.Name
	case VFieldPtr:
		return fmt.Sprintf("&%s.%s#%d", v.Base, v.SName, v.Field)
	}
	return fmt.Sprintf("val(%d)", v.K)
}

// ---- Go type helpers ----

func intTypeOf(t types.Type) (ityp, bool) {
	b, ok := t.Underlying().(*types.Basic)
	if !ok {
		return ityp{}, false
	}
	switch b.Kind() {
	case types.Int, types.Int64:
		return ityp{64, true}, true
	case types.Int32:
		return ityp{32, true}, true
	case types.Int16:
		return ityp{16, true}, true
	case types.Int8:
		return ityp{8, true}, true
	case types.Uint, types.Uint64, types.Uintptr:
		return ityp{64, false}, true
	case types.Uint32:
		return ityp{32, false}, true
	case types.Uint16:
		return ityp{16, false}, true
	case types.Uint8:
		return ityp{8, false}, true
	case types.UntypedInt, types.UntypedRune:
		return ityp{64, true}, true
	}
	return ityp{}, false
}

func isBoolType(t types.Type) bool {
	b, ok := t.Underlying().(*types.Basic)
	return ok && (b.Kind() == types.Bool || b.Kind() == types.UntypedBool)
}

func isFloatType(t types.Type) bool {
	b, ok := t.Underlying().(*types.Basic)
	return ok && (b.Info()&types.IsFloat != 0)
}

func isStringType(t types.Type) bool {
	b, ok := t.Underlying().(*types.Basic)
	return ok && (b.Info()&types.IsString != 0)
}

func structOf(t types.Type) (*types.Struct, string, bool) {
	if p, ok := t.Underlying().(*types.Pointer); ok {
		t = p.Elem()
	}
	st, ok := t.Underlying().(*types.Struct)
	if !ok {
		return nil, "", false
	}
	name := "anon"
	if n, ok := t.(*types.Named); ok {
		name = n.Obj().Name()
		if n.Obj().Pkg() != nil && n.Obj().Pkg().Name() != "decimal" {
			name = n.Obj().Pkg().Name() + "_" + name
		}
	}
	return st, name, true
}

func typeName(t types.Type) string {
	if n, ok := t.(*types.Named); ok {
		return n.Obj().Name()
	}
	if p, ok := t.(*types.Pointer); ok {
		return typeName(p.Elem())
	}
	return t.String()
}
