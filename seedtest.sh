#!/bin/sh
# usage: seedtest.sh <seed id> [function list]   -- apply a seeded change to /repo, run the verifier, undo it
id=$1; fl=$2
cd /repo || exit 2
git diff --quiet || { echo "repo dirty"; exit 2; }
git apply /verif/seeded/$id/patch.diff || exit 2
if [ -n "$fl" ]; then /verif/bin/dvc verify -f "$fl" 2>&1 | grep -A1 "FAIL\|OUTSIDE\|VACUOUS" | grep -v "^--" | cut -c1-260
else /verif/bin/dvc verify 2>&1 | grep -A1 "FAIL\|OUTSIDE\|VACUOUS" | grep -v "^--" | cut -c1-260; fi
git checkout -- . 
