(set-logic ALL)
; M = H*T + rest, T = 10*R, rest = rd*R + L, 0<=L<R, 0<=rd<=9 ; true magnitude = M + eps, eps in (0,1) iff sticky-in
(declare-const R Int) (declare-const rd Int) (declare-const L Int) (declare-const H Int)
(declare-const stin Bool) (declare-const eps Real) (declare-const neg Bool) (declare-const mode Int)
(assert (and (>= R 1) (<= 0 rd) (<= rd 9) (<= 0 L) (< L R) (>= H 0) (<= 0 mode) (<= mode 5)))
(assert (ite stin (and (< 0.0 eps) (< eps 1.0)) (= eps 0.0)))
(define-fun T () Int (* 10 R))
(define-fun rest () Real (+ (to_real (+ (* rd R) L)) eps))   ; exact fractional part * T
; ---- code (decimal.go round): sticky computed lazily
(define-fun sb0 () Bool stin)
(define-fun sb () Bool (ite (and (not sb0) (or (= rd 0) (= mode 0))) (not (= L 0)) sb0))
(define-fun inexact_code () Bool (or (not (= rd 0)) sb))
(define-fun odd () Bool (= (mod H 2) 1))
(define-fun inc_code () Bool (and inexact_code
  (ite (= mode 4) neg (ite (= mode 2) false (ite (= mode 0) (or (> rd 5) (and (= rd 5) (or sb odd)))
  (ite (= mode 1) (> rd 5) (ite (= mode 3) true (not neg))))))))
; acc_code: 0 exact, +1 above, -1 below
(define-fun acc_code () Int (ite (not inexact_code) 0 (ite (not (= inc_code neg)) 1 (- 1))))
; ---- spec (from the property): round |v| = H + rest/T to an integer under mode, sign neg
(define-fun inexact () Bool (> rest 0.0))
(define-fun inc_spec () Bool (and inexact
  (ite (= mode 2) false (ite (= mode 3) true (ite (= mode 4) neg (ite (= mode 5) (not neg)
  (ite (= mode 0) (or (> (* 2.0 rest) (to_real T)) (and (= (* 2.0 rest) (to_real T)) odd))
                  (>= (* 2.0 rest) (to_real T)))))))))
; sign(stored - exact): magnitude grows iff inc; stored>exact iff (inc xor neg)
(define-fun acc_spec () Int (ite (not inexact) 0 (ite (not (= inc_spec neg)) 1 (- 1))))
(assert (not (and (= inc_code inc_spec) (= acc_code acc_spec))))
(check-sat)
(get-model)
