(set-logic ALL)
(define-fun B10 () Int 1000000000000000000)
(declare-const q Int) (declare-const r Int) (declare-const Mx Int) (declare-const My Int)
(declare-const Pd Int) (declare-const Ply Int) (declare-const Pn1 Int) (declare-const Plx1 Int)
(assert (and (>= q 0) (>= r 0) (< r My) (>= My 1) (< My Ply)))
(assert (and (>= Pd 1) (>= Ply 1) (>= Pn1 1) (>= Plx1 1)))
(assert (>= Mx (* B10 Plx1)))                 ; x normalized: top word >= B/10
(assert (= (* Plx1 Pd) (* Pn1 Ply)))          ; P_add: lx-1+d = n-1+ly
(assert (= (+ (* q My) r) (* Mx Pd)))         ; div contract
(assert (not (>= q (* B10 Pn1))))
(check-sat)
