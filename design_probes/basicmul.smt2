(set-logic ALL)
(define-fun B () Int 10000000000000000000)
(declare-fun P (Int) Int)
; decBasicMul outer loop step, abstracted to values:
;  inv: Vz == Vx * Vy_i  (Vy_i = V(y,0,i)),   z viewed as len(x)+i words + zero tail
;  callee addMul10VVW(z[i:i+m], x, d): Vseg' + c*P(m) == Vseg + Vx*d ; z[m+i] = c
;  with Vz = Vlow + P(i)*Vseg  (split lemma), tail zero.
(declare-const Vx Int) (declare-const Vyi Int) (declare-const d Int) (declare-const c Int)
(declare-const Vlow Int) (declare-const Vseg Int) (declare-const Vseg1 Int) (declare-const i Int) (declare-const m Int)
(declare-const Vz Int) (declare-const Vz1 Int) (declare-const Vyi1 Int)
(assert (and (<= 0 i) (< 0 m)))
(assert (= Vz (* Vx Vyi)))
(assert (= Vz (+ Vlow (* (P i) Vseg))))
(assert (= (+ Vseg1 (* c (P m))) (+ Vseg (* Vx d))))
(assert (= Vz1 (+ Vlow (* (P i) (+ Vseg1 (* c (P m)))))))
(assert (= Vyi1 (+ Vyi (* d (P i)))))
(assert (not (= Vz1 (* Vx Vyi1))))
(check-sat)
