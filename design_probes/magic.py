import subprocess, time, sys
tab = [
(10, 0xcccccccccccccccd, 0, 3),(100, 0xa3d70a3d70a3d70b, 1, 5),(1000, 0x83126e978d4fdf3c, 1, 8),
(10000, 0xd1b71758e219652c, 0, 13),(100000, 0xa7c5ac471b478424, 1, 15),(1000000, 0x8637bd05af6c69b6, 0, 19),
(10000000, 0xd6bf94d5e57a42bd, 1, 22),(100000000, 0xabcc77118461cefd, 0, 26),(1000000000, 0x89705f4136b4a598, 1, 28),
(10000000000, 0xdbe6fecebdedd5bf, 0, 33),(100000000000, 0xafebff0bcb24aaff, 0, 36),(1000000000000, 0x8cbccc096f5088cc, 0, 39),
(10000000000000, 0xe12e13424bb40e14, 1, 42),(100000000000000, 0xb424dc35095cd810, 1, 45),(1000000000000000, 0x901d7cf73ab0acda, 1, 48),
(10000000000000000, 0xe69594bec44de15c, 1, 52),(100000000000000000, 0xb877aa3236a4b44a, 1, 55),(1000000000000000000, 0x9392ee8e921d5d08, 1, 58)]
bound = sys.argv[1] if len(sys.argv)>1 else "18446744073709551616"
for (d,m,pre,post) in tab:
    s = f"""(set-logic ALL)
(declare-const n Int)
(assert (and (<= 0 n) (< n {bound})))
(define-fun h () Int (div (* (div n {2**pre}) {m}) 18446744073709551616))
(define-fun q () Int (div h {2**post}))
(assert (not (= q (div n {d}))))
(check-sat)
"""
    open("m.smt2","w").write(s)
    res=[]
    for cmd in (["cvc5","--tlimit=20000","m.smt2"],["z3-new","-T:20","m.smt2"],["z3","-T:20","m.smt2"]):
        t=time.time(); o=subprocess.run(cmd,capture_output=True,text=True).stdout.strip().split("\n")[0]; res.append(f"{cmd[0]}:{o}:{time.time()-t:.1f}s")
    print(d, res)
