(set-option :produce-models true)
(set-logic ALL)
; heap: field maps over Decimal addresses
(declare-const Fmode0 (Array Int Int)) (declare-const Fprec0 (Array Int Int)) (declare-const Fform0 (Array Int Int))
(declare-const Fneg0 (Array Int Bool))
(declare-const z Int) (declare-const x Int)
(assert (and (> z 0) (> x 0)))
(assert (and (<= 0 (select Fmode0 z)) (<= (select Fmode0 z) 5) (<= 0 (select Fmode0 x)) (<= (select Fmode0 x) 5)))
(assert (and (>= (select Fprec0 z) 0) (>= (select Fprec0 x) 1)))
; path: x finite positive
(assert (= (select Fform0 x) 1)) (assert (not (select Fneg0 x)))
; z.prec==0 prologue
(define-fun Fprec1 () (Array Int Int) (ite (= (select Fprec0 z) 0) (store Fprec0 z (select Fprec0 x)) Fprec0))
(define-fun prec () Int (select Fprec1 z))
; call x.MantExp(z): contract of Copy: mant != x ==> all attrs copied ; frame: only fields of 'mant' object change
(declare-const Fmode2 (Array Int Int)) (declare-const Fprec2 (Array Int Int))
(assert (forall ((a Int)) (! (=> (not (= a z)) (and (= (select Fmode2 a) (select Fmode0 a)) (= (select Fprec2 a) (select Fprec1 a)))) :pattern ((select Fmode2 a)) :pattern ((select Fprec2 a)))))
(assert (ite (= z x) (and (= Fmode2 Fmode0) (= Fprec2 Fprec1))
             (and (= (select Fmode2 z) (select Fmode0 x)) (= (select Fprec2 z) (select Fprec1 x)))))
; z.prec = prec
(define-fun Fprec3 () (Array Int Int) (store Fprec2 z prec))
; ... rest of Sqrt modifies z.{mant,exp,acc,form,neg} only (Mul, SetMantExp(z,z,..) contracts) -> mode unchanged
; obligation Sqrt.ensures[attrs]: z.mode == old(z.mode)
(assert (not (= (select Fmode2 z) (select Fmode0 z))))
(check-sat)
(get-value (z x (select Fmode0 z) (select Fmode0 x) (select Fprec0 z) (select Fprec0 x)))
