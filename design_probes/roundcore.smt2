(set-logic ALL)
; round(), case split ntz = 5 (lsd = 10^5), m > = n >= 1 symbolic, P(.) opaque.
(define-fun B () Int 10000000000000000000)
(define-fun lsd () Int 100000)
(define-fun lsd10 () Int 10000)
(declare-const Pmn Int) (declare-const Pn Int)       ; P(m-n), P(n)
(declare-const Vlow Int) (declare-const Vrest Int)   ; V(a,0,m-n), V(a,m-n+1,m)
(declare-const w0 Int)                               ; a[m-n]
(declare-const hi Int) (declare-const rd Int) (declare-const lo Int)
(assert (and (>= Pmn 1) (>= Pn B)))
(assert (and (<= 0 Vlow) (< Vlow Pmn) (<= 0 Vrest) (<= 0 w0) (< w0 B)))
; digit()/sticky() callee contracts, word decomposition w0 = hi*lsd + rd*lsd/10 + lo
(assert (= w0 (+ (* hi lsd) (* rd lsd10) lo)))
(assert (and (<= 0 rd) (<= rd 9) (<= 0 lo) (< lo lsd10) (<= 0 hi)))
(define-fun Vcut () Int (+ w0 (* B Vrest)))          ; V(a,m-n,m) unfold
(assert (< Vcut Pn))                                 ; wordsok => V < P(n)
(define-fun M0 () Int (+ Vlow (* Pmn Vcut)))         ; V_split
(define-fun T () Int (* lsd Pmn))
(define-fun R () Int (* lsd10 Pmn))
; ghost witnesses claimed by the contract
(define-fun H () Int (+ hi (* (div B lsd) Vrest)))
(define-fun L () Int (+ (* lo Pmn) Vlow))
(define-fun F () Int (+ (* rd R) L))
; code: after copy V(b)=Vcut ; optional add10VW(b,b,lsd) with carry c ; b[0] -= b[0]%lsd
(declare-const inc Int) (declare-const c Int) (declare-const Vb1 Int) (declare-const b10 Int)
(assert (or (= inc 0) (= inc 1))) (assert (or (= c 0) (= c 1)))
(assert (=> (= inc 0) (= c 0)))
(assert (= (+ Vb1 (* c Pn)) (+ Vcut (* inc lsd))))   ; add10VW value contract (identity when inc=0)
(assert (= b10 (mod (+ w0 (* inc lsd)) B)))          ; new word 0 (digitwise part of contract)
(define-fun Vb2 () Int (- Vb1 (mod b10 lsd)))        ; z.mant[0] -= z.mant[0] % lsd
(assert (not (and
   (= M0 (+ (* H T) F))
   (<= 0 L) (< L R) (< F T)
   (= (= L 0) (and (= lo 0) (= Vlow 0)))
   (= Vb2 (- (* (+ H inc) lsd) (* c Pn)))
   (= (mod H 2) (mod hi 2))        ; parity bit used by ToNearestEven = digit(ntz)&1
)))
(check-sat)
