(set-logic ALL)
(define-fun B () Int 10000000000000000000)
(declare-fun V ((Array Int Int) Int Int) Int)
(declare-fun P (Int) Int)
(declare-const z0 (Array Int Int)) (declare-const z1 (Array Int Int)) (declare-const z2 (Array Int Int)) (declare-const z3 (Array Int Int))
(declare-const x (Array Int Int)) (declare-const y (Array Int Int))
(declare-const m Int) (declare-const n Int) (declare-const c Int) (declare-const c2 Int)
(assert (and (< 0 n) (< n m)))
(assert (or (= c 0) (= c 1))) (assert (or (= c2 0) (= c2 1)))
; add10VV(z[0:n],x,y) contract + frame (only [0,n) of z changed)
(assert (= (+ (V z1 0 n) (* c (P n))) (+ (V x 0 n) (V y 0 n))))
; add10VW(z[n:m], x[n:], c) contract + frame
(assert (= (+ (V z2 n m) (* c2 (P (- m n)))) (+ (V x n m) c)))
(assert (= (V z2 0 n) (V z1 0 n)))          ; frame lemma instance
(assert (= z3 (store z2 m c2)))
(assert (= (V z3 0 m) (V z2 0 m)))          ; frame lemma instance
; unfold/split lemma instances
(assert (= (V z3 0 (+ m 1)) (+ (V z3 0 m) (* (select z3 m) (P m)))))
(assert (= (V z2 0 m) (+ (V z2 0 n) (* (P n) (V z2 n m)))))
(assert (= (V x 0 m) (+ (V x 0 n) (* (P n) (V x n m)))))
(assert (= (P m) (* (P n) (P (- m n)))))
(assert (and (> (P n) 0) (> (P m) 0) (> (P (- m n)) 0)))
(assert (not (= (V z3 0 (+ m 1)) (+ (V x 0 m) (V y 0 n)))))
(check-sat)
